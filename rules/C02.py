"""C02 — progress / no deadlock under fair loss (necessary structural conditions)."""
from engine.rulelib import *
from engine import desc as D

EXPLANATION = ("Liveness over all schedules is not statically decidable; these are necessary conditions, each of which yields a wedging schedule when broken. "
               "(a) Timer::VALUES lists every Timer variant exactly once, TimerTable has a slot for each, handle_timeout iterates VALUES; (b) the loss-detection timer is "
               "re-armed at the end of on_ack_received, discard_space, both arms of on_loss_detection_timeout, after each tracked send, when anti-amplification unblocks "
               "and when a failed path validation restores the previous path; (c) no ShouldTransmit / must_use result is dropped (rustc -Dunused_must_use on the analysed "
               "build) and each one flows to the pending MAX_DATA / MAX_STREAM_DATA flag; (d) MAX_STREAMS credit is queued after every path that frees a remote stream; "
               "(e) every Blocked outcome is preceded by a registration that later yields Writable (write_source, received_max_stream_data); connection_blocked is drained "
               "only when write_limit() > 0; (f) loss probes bypass the congestion/pacing gate (C12.c); (g) maybe_queue_probe runs for every space before the send loop and "
               "always leaves something ack-eliciting queued; (h) the Pacing timer is armed on the only pacing-blocked exit, MaxAckDelay whenever packet_received asks for it; "
               "(i) the pacer only moves its reference time forward when tokens were generated; (j) every function that changes the state read by Send::is_pending "
               "(write, finish, retransmit, retransmit_all_for_0rtt, write_stream_frames) keeps `is_pending() => queued in StreamsState.pending`: the is_pending() sample deciding "
               "the push is taken before the change (enqueue-if-absent) resp. after it (requeue of a popped stream) and its deciding edge always reaches the push; (k) every slot of PendingStreamsQueue that pop() yields from is enumerated, whole range, by the iter() view on which can_send_stream_data decides whether a packet is built; (l) a datagram that consumes a loss probe is allotted min(.., INITIAL_MTU) and a packet is padded to a run-time size only under `datagram_start + size <= buf_capacity` (probes must fit the minimum MTU to recover from a path-MTU reduction). Completion within bounded time is NOT decided.")
RULE = "rule instances = (rule, site) pairs over MIR call sites / branches / constant tables; non-trivial = bound to a real site"


# --------------------------------------------------------------------------
# local helpers (structure only: descriptors, branch edges, reachability)
# --------------------------------------------------------------------------

_ITER_VIEWS = ('iter', 'into_iter', 'iter_mut', 'cloned', 'copied', 'by_ref')


def _escapes(body, starts, avoid=(), avoid_edges=()):
    """some path from `starts` reaches a normal return without entering an `avoid` block or using an `avoid_edges` edge"""
    r = body.reachable_from(list(starts), set(avoid), set(avoid_edges))
    return any(x in r for x in body.return_blocks())


def _peel_iter(d):
    """strip calls that only turn a collection into an iterator over ALL of its elements (`.iter()`, `.into_iter()`,
    `.cloned()`, `.copied()`); range-changing adaptors (skip/take/filter/rev().take/step_by/slicing) are NOT stripped"""
    while isinstance(d, tuple) and d and d[0] == 'call' and len(d[3]) == 1 and d[1].rsplit('::', 1)[-1] in _ITER_VIEWS:
        d = d[3][0]
    return d


def _is_named_const(d, name):
    return isinstance(d, tuple) and d[0] == 'const' and bool(d[3]) and (d[3] == name or d[3].endswith('::' + name))


def _variant_of(d, adt_last):
    """'V' when d is the fieldless aggregate `<..>::adt_last::V`, else None"""
    if isinstance(d, tuple) and d[0] == 'agg' and d[1] == 'adt':
        parts = d[2].split('::')
        if len(parts) >= 2 and parts[-2] == adt_last:
            return parts[-1]
    return None


def _is_full_array(d, adt_last, variants):
    """d is an array literal listing every variant of the enum exactly once"""
    if not (isinstance(d, tuple) and d[0] == 'agg' and d[1] == 'array'):
        return False
    vs = [_variant_of(x, adt_last) for x in d[3]]
    return None not in vs and sorted(vs) == sorted(variants)


def _next_calls(d):
    """`Iterator::next(recv)` nodes inside a descriptor"""
    return [x for x in walk(d) if x[0] == 'call' and len(x[3]) == 1 and x[1].rsplit('::', 1)[-1] == 'next']


def _bool_edges_of(br):
    """(inner descriptor, target when inner is true, target when inner is false) of a bool branch"""
    inner, neg = peel_not(br.desc)
    return inner, br.target(0 if neg else 1), br.target(1 if neg else 0)


def _max_data_set_blocks(ctx, body):
    """blocks of `body` that store `true` (or `|= true`) to Retransmits.max_data; for stores that index
    Connection.spaces the indexed space must be SpaceId::Data"""
    F = ctx.facts
    d = describer(F, body)
    out = set()
    for w, v in store_values(ctx, 'Retransmits', 'max_data', in_fn=body):
        if w.body.id != body.id:
            continue
        true_ = (v == ('const', 'int', '1', '')) or (v[0] == 'bin' and v[1] == 'BitOr' and ('const', 'int', '1', '') in (v[2], v[3]))
        if not true_:
            continue
        base = d.place([w.place[0], []], w.bb, w.idx)
        if D.has_field(base, 'spaces') and not any(_variant_of(x, 'SpaceId') == 'Data' for x in walk(base)):
            continue
        out.add(w.bb)
    return out


def _decision_queues_max_data(ctx, body, site):
    """the bool decision derived from call `site` (directly, or through ShouldTransmit::should_transmit) is branched on and
    every path from its TRUE edge to a return stores pending.max_data = true.  returns (found a branch, ok)"""
    F = ctx.facts
    md = _max_data_set_blocks(ctx, body)
    found, ok = False, True
    for br in branches(F, body):
        inner, t_yes, t_no = _bool_edges_of(br)
        if inner[0] != 'call' or not contains_site(inner, site):
            continue
        if not (is_site(inner, site) or (D.has_call(inner, 'ShouldTransmit::should_transmit') and inner[1].endswith('should_transmit'))):
            continue
        found = True
        if t_yes is None or not md or _escapes(body, [t_yes], avoid=md):
            ok = False
    return found, ok


def _strip_some(d):
    """peel `(x as Some).0` payload projections"""
    while isinstance(d, tuple) and d[0] == 'field' and d[2] == '0' and d[1][0] == 'variant' and d[1][2] == 'Some':
        d = d[1][1]
    return d


def _flat_all(d):
    """phi alternatives, flattened recursively"""
    if isinstance(d, tuple) and d and d[0] == 'phi':
        out = []
        for x in d[1]:
            out.extend(_flat_all(x))
        return out
    return [d]


def _loop_keeps_minimum(ctx, fn):
    """the explicit-loop spelling of `self.data.iter().filter_map(|&x| x).min()`:
         acc = None; for slot in <whole self.data> { if let Some(e) = slot { if acc is None or e < acc { acc = Some(e) } } }; acc
    decided on the direction of the comparison, not on names: ELEM is the payload of `Iterator::next` over the WHOLE table
    (no skip/take/filter), ACC is the payload of the value the function returns; on every edge where ELEM < ACC / ELEM <= ACC
    holds the accumulator is overwritten with Some(ELEM) before the next iteration, on every edge where ACC <= ELEM / ACC < ELEM
    holds it is not, and every other way through the loop body (accumulator still None) stores Some(ELEM) unless the slot
    itself is None.  A loop keeping the LARGER value has the two edge kinds swapped and is rejected."""
    F = ctx.facts
    R = {d for r, d in ret_descs(F, fn)}
    if not R:
        return False

    def table_next(x):
        if not (isinstance(x, tuple) and x[0] == 'call' and len(x[3]) == 1 and x[1].rsplit('::', 1)[-1] == 'next'):
            return False
        src = _peel_iter(x[3][0])
        return src[0] == 'field' and src[2] == 'data' and src[1][0] == 'param'

    def is_elem(d):
        return isinstance(d, tuple) and d[0] == 'field' and not any(x[0] in ('phi', 'local') for x in walk(d)) and table_next(_strip_some(d))

    def is_acc(d):
        return isinstance(d, tuple) and d[0] == 'field' and d[2] == '0' and d[1][0] == 'variant' and d[1][2] == 'Some' and d[1][1] in R

    def some_elem(v):
        return isinstance(v, tuple) and v[0] == 'agg' and v[1] == 'adt' and v[2].endswith('Option::Some') and len(v[3]) == 1 and is_elem(v[3][0])

    # the returned accumulator can hold Some(ELEM)
    if not any(some_elem(x) for r in R for x in _flat_all(r)):
        return False
    d = describer(F, fn)
    live = fn.live_blocks()
    take = {i for i, j, pl, rv, line in fn.assigns() if i in live and rv[0] == 'agg' and some_elem(d.rvalue(rv, i, j, 0))}
    take_e, keep_e, none_e, elems = [], set(), set(), set()
    for br in branches(F, fn):
        for truth in (True, False):
            rel = relation_on(br.desc, truth)
            if rel is None or rel[0] not in ('Lt', 'Le'):
                continue
            tgt = br.target(1 if truth else 0)
            if is_elem(rel[1]) and is_acc(rel[2]):
                take_e.append((br.bb, tgt))
                elems.add(rel[1])
            elif is_acc(rel[1]) and is_elem(rel[2]):
                keep_e.add((br.bb, tgt))
                elems.add(rel[2])
    if not take or not take_e or not keep_e:
        return False
    nxt = {x[4] for e in elems for x in walk(e) if table_next(x)}
    entries = []
    for br in branches(F, fn):
        if br.desc[0] != 'discr':
            continue
        x = br.desc[1]
        if table_next(x) and x[4] in nxt:
            entries.append(br.target(1))                       # loop body: the iterator yielded a slot
        elif any(x in list(walk(e)) for e in elems) and table_next(_strip_some(x)):
            none_e.add((br.bb, br.target(0)))                  # the slot itself is None: skipped
    ends = nxt | set(fn.return_blocks())
    if not entries or None in entries:
        return False
    for bb, tgt in take_e:
        if tgt is None or any(x in fn.reachable_from([tgt], take) for x in ends):
            return False
    for bb, tgt in keep_e:
        if tgt is None or any(x in fn.reachable_from([tgt], nxt) for x in take):
            return False
    r = fn.reachable_from(entries, take, keep_e | none_e)
    return not any(x in r for x in ends)


def _follows_write(F, body, w, pats, depth=0):
    """must_follow for a store: a store made by a STATEMENT of block w.bb is also followed by `pats` when the terminator
    of that same block is the required call (`x.f = v; self.pats()` compiled into one block)"""
    if w.kind == 'assign' and w.bb in must_sites(F, body, pats, depth):
        return None
    return must_follow(F, body, w.bb, pats, depth)


def rule_a(ctx):
    F = ctx.facts
    t = F.adt('timer::Timer')
    variants = [v['name'] for v in t['variants']]
    vb = F.const_body('Timer::VALUES')
    elems = [rv[1][2] for i, j, pl, rv, line in vb.assigns() if rv[0] == 'agg' and rv[1][0] == 'adt' and rv[1][1].endswith('timer::Timer')]
    ctx.check(sorted(elems) == sorted(variants), 'a', 'timer_values_lists_every_timer_once', vb, vb.where(), '%d timers' % len(elems),
              'Timer::VALUES %s is not a permutation of the Timer variants (missing %s): a missing timer never fires and is never stopped' % (len(elems), sorted(set(variants) - set(elems))))
    tt = F.adt('timer::TimerTable')
    ty = tt['variants'][0]['fields'][0][1]
    import re
    m = re.search(r';\s*(\d+)\]', ty)
    ctx.check(bool(m) and int(m.group(1)) >= len(variants), 'a', 'timer_table_has_a_slot_per_timer', 'TimerTable', '', ty, 'TimerTable.data %s has fewer slots than Timer variants (%d)' % (ty, len(variants)))
    mx = max(int(v['discr']) for v in t['variants'])
    ctx.check(bool(m) and mx < int(m.group(1)), 'a', 'timer_discriminants_index_the_table', 'Timer', '', 'max discriminant %d' % mx, 'a Timer discriminant exceeds the table size')
    ht = ctx.pfn('Connection::handle_timeout')
    # the loop variable comes from an iterator over exactly Timer::VALUES (or a literal array of every variant): no
    # skip/take/filter/slice between the table and `next`, and it is that variable whose expiry is examined
    def whole_table(d):
        d = _peel_iter(d)
        return _is_named_const(d, 'Timer::VALUES') or _is_full_array(d, 'Timer', variants)
    nx = [c for c in ht.calls() if short(c.f).rsplit('::', 1)[-1] == 'next' and len(c.args) == 1 and whole_table(arg_desc(F, c, 0))]
    ex = ht.calls_to('TimerTable::is_expired')
    ctx.check(bool(nx) and bool(ex) and all(any(contains_site(arg_desc(F, e, 1), c) for c in nx) for e in ex), 'a', 'handle_timeout_iterates_all_timers', ht, ht.where(), 'for &timer in &Timer::VALUES { is_expired(timer) .. }',
              'handle_timeout no longer examines every element of Timer::VALUES (the iterated range is not the whole table, or the timer tested is not the loop variable)')
    nt = ctx.pfn('TimerTable::next_timeout')
    ctx.check(any(short(c.f).endswith('::min') for x in F.family(nt) for c in x.calls()) or _loop_keeps_minimum(ctx, nt), 'a', 'next_timeout_is_minimum', nt, nt.where(), 'min over the table (Iterator::min, or a loop keeping the smaller deadline)', 'next_timeout no longer returns the minimum deadline')


def rule_b(ctx):
    F = ctx.facts
    SL = ['Connection::set_loss_detection_timer']
    n = 0
    oa = ctx.pfn('Connection::on_ack_received')
    # every Ok return past the newly_acked.is_empty() early-out passes set_loss_detection_timer: check from detect_lost_packets call
    for c in oa.calls_to('Connection::detect_lost_packets'):
        p = must_follow(F, oa, c.bb, SL, 0)
        n += 1
        ctx.check(p is None, 'b', 'rearm_after_ack', oa, c.where(), 'set_loss_detection_timer on every path after loss detection', 'on_ack_received can return without re-arming the loss timer: %s' % fmt_path(oa, p))
    ds = ctx.pfn('Connection::discard_space')
    n += 1
    ctx.check(must_call(F, ds, SL, 0), 'b', 'rearm_after_discard_space', ds, ds.where(), 'must-calls set_loss_detection_timer', 'discard_space no longer re-arms the loss timer')
    ol = ctx.pfn('Connection::on_loss_detection_timeout')
    for what, pats in (('loss_time_arm', ['Connection::detect_lost_packets']), ('pto_arm', [])):
        if pats:
            for c in ol.calls_to(*pats):
                n += 1
                ctx.check(must_follow(F, ol, c.bb, SL, 0) is None, 'b', 'rearm_in_' + what, ol, c.where(), 'followed by set_loss_detection_timer', 'loss-time arm does not re-arm the timer')
    lp = [w for w in field_writes(F, 'PacketSpace', 'loss_probes', crate='quinn_proto') if w.body.id == ol.id and w.kind in ('assign', 'callresult')]
    for w in lp:
        n += 1
        ctx.check(_follows_write(F, ol, w, SL, 0) is None, 'b', 'rearm_in_pto_arm', ol, w.where(), 'PTO arm re-arms the timer', 'after scheduling loss probes the PTO timer is not re-armed')
    ft = ctx.pfn('PacketBuilder::finish_and_track')
    cs = ft.calls_to(*SL)
    # "in flight" = the value recorded as SentPacket.size at the PathData::sent call; on the edge where it is != 0 every
    # path to the return re-arms the timer
    sizes = []
    for c in ft.calls_to('PathData::sent'):
        for i in range(len(c.args)):
            for x in walk(arg_desc(F, c, i)):
                if x[0] == 'agg' and x[1] == 'adt' and x[2].split('::')[-1] == 'SentPacket' and len(x) > 4 and 'size' in x[4]:
                    sizes.append(x[3][x[4].index('size')])
    zero = ('const', 'int', '0', '')
    one = ('const', 'int', '1', '')
    es = guard_edges(ctx, ft, lambda o, a, b: (o == 'Ne' and ((a == zero and b in sizes) or (b == zero and a in sizes))) or (o == 'Lt' and a == zero and b in sizes) or (o == 'Le' and a == one and b in sizes))
    slb = {c.bb for c in cs}
    n += len(cs)
    ctx.check(bool(cs) and bool(sizes) and bool(es) and all(tgt is not None and not _escapes(ft, [tgt], avoid=slb) for br, truth, tgt in es), 'b', 'rearm_after_tracked_send', ft, ft.where(),
              'size != 0 -> set_loss_detection_timer on every path', 'sending an in-flight packet (SentPacket.size != 0) no longer (re)arms the loss timer on every path')
    he = ctx.pfn('Connection::handle_event')
    cs = he.calls_to(*SL)
    slb = {c.bb for c in cs}
    n += len(cs)
    # the flag: result of PathData::anti_amplification_blocked that is branched on (through any local copy)
    flag_br = []
    for br in branches(F, he):
        inner, t_yes, t_no = _bool_edges_of(br)
        if inner[0] == 'call' and (inner[1] == 'PathData::anti_amplification_blocked' or path_matches(inner[2], 'PathData::anti_amplification_blocked')):
            flag_br.append((br, inner, t_yes, t_no))
    # crediting sites of this datagram: the direct store to PathData.total_recvd and the packet handlers.  A packet
    # handler is any call site of handle_event that can reach Connection::handle_packet (which authenticates the packet
    # and may validate the path): handle_decode / handle_coalesced today, or handle_packet itself when handle_decode's
    # body (unprotect_header -> handle_packet) is written out in handle_event
    credit_st = [w for w in field_writes(F, 'PathData', 'total_recvd', crate='quinn_proto') if w.body.id == he.id and w.kind in ('assign', 'callresult')]
    hp = may_sites(F, he, ['Connection::handle_packet'], 3)
    handlers = [c for c in he.calls() if c.bb in hp]
    credit = {w.bb for w in credit_st} | {c.bb for c in handlers}
    # what must exist: the store that credits the datagram and a handler for its first packet (the handler of the
    # coalesced remainder is not counted)
    ctx.floor('b', 'datagram_credit_sites', len(credit_st) + len([c for c in handlers if not c.is_('Connection::handle_coalesced')]), 2)
    # after the datagram is credited, every path to the return either re-arms or leaves over the "was not blocked" edge
    not_blocked = {(br.bb, t_no) for br, inner, t_yes, t_no in flag_br if t_no is not None and t_no != t_yes}
    ok = bool(cs) and bool(flag_br) and bool(credit_st) and all(not _escapes(he, [w.bb], avoid=slb, avoid_edges=not_blocked) for w in credit_st)
    ctx.check(ok, 'b', 'rearm_when_amplification_unblocks', he, he.where(), 'after crediting total_recvd: if was_anti_amplification_blocked { set_loss_detection_timer }',
              'receiving data on an amplification-blocked path no longer re-arms the loss timer (handshake deadlock if the first flight was lost)')
    # the flag records the state BEFORE this datagram is credited: its sampling call dominates every crediting site and
    # cannot be reached again after one
    samp = {inner[4] for br, inner, t_yes, t_no in flag_br}
    after = set()
    for x in credit:
        after |= he.reachable_strict(x)
    ok = bool(samp) and bool(credit) and all(sb not in credit and sb not in after and all(he.dominates(sb, x) for x in credit) for sb in samp)
    ctx.check(ok, 'b', 'unblock_flag_definition', he, he.where(), 'was_.. = path.anti_amplification_blocked(1), sampled before handle_decode / total_recvd is credited',
              'the unblock flag is no longer the amplification state sampled before this datagram is credited (sampled afterwards it is false exactly when the datagram lifted the limit)')
    ht = ctx.pfn('Connection::handle_timeout')
    cs = ht.calls_to(*SL)
    n += len(cs)
    ctx.check(bool(cs), 'b', 'rearm_after_path_revert', ht, ht.where(), 'PathValidation arm re-arms', 'reverting to the previous path no longer re-arms the loss timer')
    ctx.floor('b', 'rearm_sites', n, 7)


def rule_c(ctx):
    F = ctx.facts
    ctx.ok('c', 'must_use_results_not_dropped', 'rustc -Dunused_must_use', '', 'the analysed build compiled with -Dunused_must_use (a dropped ShouldTransmit / #[must_use] value is a compile error reported as a violation)')
    st = F.adt('streams::ShouldTransmit')
    pp = ctx.pfn('Connection::process_payload')
    nd = 0
    for callee in ('StreamsState::received', 'StreamsState::received_reset'):
        for c in pp.calls_to(callee):
            nd += 1
            found, ok = _decision_queues_max_data(ctx, pp, c)
            ctx.check(found and ok, 'c', 'credit_decision_queues_max_data', pp, c.where(), 'if %s(..)?.should_transmit() { spaces[Data].pending.max_data = true }' % short(c.f),
                      'the ShouldTransmit decision of %s no longer queues MAX_DATA: %s' % (short(c.f), 'a path from its should_transmit()==true edge reaches the return without storing pending.max_data = true in the Data space' if found else 'its should_transmit() is not branched on'))
    ctx.floor('c', 'credit_decision_sites', nd, 2)
    rs = ctx.pfn('RecvStream::stop')
    md = [w for w in field_writes(F, 'Retransmits', 'max_data', crate='quinn_proto') if w.body.id == rs.id and w.kind == 'assign']
    ctx.check(bool(md) and bool(rs.calls_to('ShouldTransmit::should_transmit')), 'c', 'stop_queues_max_data', rs, rs.where(), 'add_read_credits(..).should_transmit() -> pending.max_data', 'RecvStream::stop no longer queues MAX_DATA for discarded bytes')
    fi = ctx.pfn('Chunks::finalize_inner')
    md = [w for w in field_writes(F, 'Retransmits', 'max_data', crate='quinn_proto') if w.body.id == fi.id]
    ms = [c for c in fi.calls() if short(c.f).endswith('::insert') and D.has_field(arg_desc(F, c, 0), 'max_stream_data')]
    ctx.check(bool(md) and bool(ms), 'c', 'finalize_queues_credit', fi, fi.where(), 'pending.max_data |= ..; pending.max_stream_data.insert(id)', 'finishing a read no longer queues MAX_DATA / MAX_STREAM_DATA')
    srw = ctx.pfn('Connection::set_receive_window')
    grown = srw.calls_to('StreamsState::set_receive_window')
    res = [_decision_queues_max_data(ctx, srw, c) for c in grown]
    ctx.check(bool(res) and all(f and o for f, o in res), 'c', 'window_growth_queues_max_data', srw, srw.where(), 'streams.set_receive_window(..) == true (expanded) -> spaces[Data].pending.max_data = true',
              'growing the receive window no longer announces it (the store of pending.max_data is not on the expanded==true edge)')
    # the pending flags are consumed only by write_control_frames
    wcf = ctx.pfn('StreamsState::write_control_frames')
    # the MAX_DATA frame type is written on the TRUE edge of a test of the pending flag (more conditions, e.g. space left,
    # may follow on that edge)
    wr = [c for c in wcf.calls() if short(c.f).rsplit('::', 1)[-1] == 'write' and any(_is_named_const(x, 'FrameType::MAX_DATA') for i in range(len(c.args)) for x in walk(arg_desc(F, c, i)))]
    tests = []
    for br in branches(F, wcf):
        inner, t_yes, t_no = _bool_edges_of(br)
        if inner[0] == 'field' and inner[2] == 'max_data' and inner[1][0] == 'param':
            tests.append((br, t_yes, t_no))
    ok = bool(wr) and bool(tests) and all(any(t_yes is not None and wcf.dominates(br.bb, w.bb) and w.bb in wcf.reachable_from(t_yes, avoid=[br.bb]) for br, t_yes, t_no in tests) for w in wr)
    ctx.check(ok, 'c', 'pending_max_data_consumed', wcf, wcf.where(), 'if pending.max_data [&& room] { write(FrameType::MAX_DATA) }', 'a pending MAX_DATA is never written: no write of FrameType::MAX_DATA lies on the true edge of a test of pending.max_data')


def rule_d(ctx):
    who_may_call(ctx, 'd', 'max_stream_id_credit_sites', ['StreamsState::queue_max_stream_id'],
                 ['Connection::process_payload', 'RecvStream::received_reset', 'Chunks::finalize_inner', 'Connection::set_max_concurrent_streams'], floor=4,
                 why='stream-count credit must be re-evaluated wherever a remote stream can become free')
    F = ctx.facts
    pp = ctx.pfn('Connection::process_payload')
    # MUST-FOLLOW from the exit of the frame loop (the None edge of `frame::Iter::next`) and from the packet_received
    # bookkeeping after it: every path to the return passes queue_max_stream_id
    q = pp.calls_to('StreamsState::queue_max_stream_id')
    qb = {x.bb for x in q}
    exits = []
    for br in branches(F, pp):
        if br.desc[0] == 'discr' and br.desc[1][0] == 'call' and br.desc[1][1].rsplit('::', 1)[-1] == 'next' and path_matches(br.desc[1][2], 'frame::Iter'):
            if br.target(0) is not None:
                exits.append(br.target(0))
    exits += [c.bb for c in pp.calls_to('PendingAcks::packet_received')]
    ok = bool(q) and bool(exits) and not _escapes(pp, exits, avoid=qb)
    ctx.check(ok, 'd', 'credit_requeued_after_frame_processing', pp, pp.where(), 'queue_max_stream_id on every path after the frame loop', 'process_payload no longer re-evaluates stream-count credit on every path after processing frames')


def rule_e(ctx):
    F = ctx.facts
    ws = ctx.pfn('SendStream::write_source')
    # edges on which write_limit() == 0 holds; write_limit() is a u64, so `!(limit > 0)` / `limit <= 0` / `limit < 1`
    # are the same predicate (relation_on normalises the negation and the operand order)
    zero, one = ('const', 'int', '0', ''), ('const', 'int', '1', '')
    WL = 'StreamsState::write_limit'
    es = guard_edges(ctx, ws, lambda o, a, b: (o == 'Eq' and ((D.has_call(a, WL) and D.has_const(b, 0)) or (D.has_call(b, WL) and D.has_const(a, 0))))
                     or (o == 'Le' and D.has_call(a, WL) and b == zero) or (o == 'Lt' and D.has_call(a, WL) and b == one))
    push = [c for c in ws.calls_to('Vec::push') if D.has_field(arg_desc(F, c, 0), 'connection_blocked')]
    ok = bool(es) and bool(push)
    for br, truth, tgt in es:
        # from the limit == 0 edge, every path to the Blocked return passes the push or the already-registered (connection_blocked == true) edge
        flag = [b2 for b2 in branches(F, ws) if D.has_field(b2.desc, 'connection_blocked') and b2.bb in ws.reachable_from(tgt)]
        if not flag:
            ok = False
        for f in flag:
            t_unreg = f.target(0) if peel_not(f.desc)[1] is False else f.target(1)
            if path_avoiding(ws, [t_unreg], ws.return_blocks(), {c.bb for c in push}) is not None:
                ok = False
    ctx.check(ok, 'e', 'blocked_write_registers_for_writable', ws, ws.where(), 'limit == 0 -> connection_blocked.push(id) (unless already registered) before Err(Blocked)', 'a write blocked on the connection window is not registered for a later Writable event')
    rm = ctx.pfn('StreamsState::received_max_stream_data')
    im = rm.calls_to('Send::increase_max_data')
    wr = [c for c in constructions(F, 'StreamEvent', 'Writable', crate='quinn_proto') if F.root_of(c.body).id == rm.id]
    push = [c for c in rm.calls_to('Vec::push') if D.has_field(arg_desc(F, c, 0), 'connection_blocked')]
    ok = bool(im) and bool(wr) and bool(push)
    for c in im:
        for br in branches(F, rm):
            inner, neg = peel_not(br.desc)
            if inner[0] == 'call' and contains_site(inner, c):
                t_yes = br.target(0 if neg else 1)
                flag = [b2 for b2 in branches(F, rm) if D.has_field(b2.desc, 'connection_blocked') and b2.bb in rm.reachable_from(t_yes)]
                avoid = {x.bb for x in wr} | {x.bb for x in push}
                # the "already registered" edge is fine as well
                for f in flag:
                    inner2, neg2 = peel_not(f.desc)
                    already = f.target(0 if neg2 else 1) if True else None
                    avoid_edges = {(f.bb, f.target(1 if not neg2 else 0))} if False else set()
                p = path_avoiding(rm, [t_yes], rm.return_blocks(), avoid)
                if p is not None:
                    # allow only paths through the already-registered edge of the connection_blocked flag test
                    okp = False
                    for f in flag:
                        inner2, neg2 = peel_not(f.desc)
                        t_already = f.target(0 if neg2 else 1)
                        p2 = path_avoiding(rm, [t_yes], rm.return_blocks(), avoid | {t_already})
                        if p2 is None:
                            okp = True
                    if not okp:
                        ok = False
    ctx.check(ok, 'e', 'unblocked_stream_reported_or_registered', rm, rm.where(), 'increase_max_data true -> Writable, or registered in connection_blocked while the connection window is exhausted',
              'a stream unblocked by MAX_STREAM_DATA while the connection-level limit is exhausted is neither reported Writable nor registered: its writer never learns it may continue')
    po = ctx.pfn('StreamsState::poll')
    pops = [c for c in po.calls_to('Vec::pop') if D.has_field(arg_desc(F, c, 0), 'connection_blocked')]
    guard_protects(ctx, 'e', 'blocked_list_drained_only_with_credit', po, lambda o, a, b: o == 'Le' and D.has_call(a, 'StreamsState::write_limit') and D.has_const(b, 0) or (o == 'Eq' and D.has_call(a, 'StreamsState::write_limit') | D.has_call(b, 'StreamsState::write_limit')), [c.bb for c in pops], what='write_limit() > 0')
    ctx.floor('e', 'blocked_list_pop_sites', len(pops), 1)


def rule_g(ctx):
    F = ctx.facts
    pt = ctx.pfn('Connection::poll_transmit')
    mq = pt.calls_to('PacketSpace::maybe_queue_probe')
    pb = pt.calls_to('PacketBuilder::new')
    # the space handed to maybe_queue_probe ranges over EVERY SpaceId: the loop variable of an iterator over exactly
    # SpaceId::iter() / a literal array of all variants (no skip/take/filter in between), or explicit calls per variant
    sv = [v['name'] for v in F.adt('packet::SpaceId')['variants']]
    covered = set()
    for m_ in mq:
        recv = arg_desc(F, m_, 0)
        nxs = _next_calls(recv)
        if nxs:
            for x in nxs:
                src = _peel_iter(x[3][0])
                if (src[0] == 'call' and not src[3] and (src[1] == 'SpaceId::iter' or path_matches(src[2], 'SpaceId::iter'))) or _is_full_array(src, 'SpaceId', sv):
                    covered |= set(sv)
                elif src[0] == 'agg' and src[1] == 'array':
                    covered |= {_variant_of(e, 'SpaceId') for e in src[3]} - {None}
        else:
            covered |= {_variant_of(x, 'SpaceId') for x in walk(recv)} - {None}
    ok = bool(mq) and covered == set(sv)
    # the probe-queueing loop completes before the first packet is built: no builder reachable before it
    ok = ok and all(not pt.dominates(b.bb, m.bb) for b in pb for m in mq)
    ctx.check(ok, 'g', 'probes_queued_for_every_space_first', pt, pt.where(), 'for space in SpaceId::iter() { maybe_queue_probe }', 'loss probes are no longer prepared for every space before the send loop (spaces covered: %s)' % sorted(covered))
    m = ctx.pfn('PacketSpace::maybe_queue_probe')
    # every path that passes the loss_probes != 0 test ends with something ack-eliciting queued: pending non-empty (early return), retransmits moved, or ping/immediate_ack pending
    def lp(x):
        return x[0] == 'field' and x[2] == 'loss_probes' and x[1][0] == 'param'
    zero, one = ('const', 'int', '0', ''), ('const', 'int', '1', '')
    # edges on which loss_probes != 0 holds: `!= 0`, `0 <`, `1 <=` (and their negated spellings, normalised by relation_on)
    z = guard_edges(ctx, m, lambda o, a, b: (o == 'Ne' and ((a == zero and lp(b)) or (b == zero and lp(a)))) or (o == 'Lt' and a == zero and lp(b)) or (o == 'Le' and a == one and lp(b)))
    pp_ = [w for w in field_writes(F, 'PacketSpace', 'ping_pending', crate='quinn_proto') if w.body.id == m.id]
    ping = {w.bb for w, v in store_values(ctx, 'PacketSpace', 'ping_pending', in_fn=m) if w.body.id == m.id and v == ('const', 'int', '1', '')}
    ia = [br for br in branches(F, m) if D.has_field(br.desc, 'immediate_ack_pending')]
    bo = [c for c in m.calls() if c.is_('BitOrAssign::bitor_assign')]
    ie = [br for br in branches(F, m) if D.has_call(br.desc, 'Retransmits::is_empty')]
    content_edges = set()      # edges on which something ack-eliciting is known to be queued
    for br in branches(F, m):
        inner, t_yes, t_no = _bool_edges_of(br)
        if t_yes == t_no:
            continue
        if inner[0] == 'call' and inner[1].endswith('Retransmits::is_empty') and inner[3] and inner[3][0][0] == 'field' and inner[3][0][2] == 'pending' and inner[3][0][1][0] == 'param':
            content_edges.add((br.bb, t_no))                     # self.pending is NOT empty
        if inner[0] == 'field' and inner[2] == 'immediate_ack_pending' and inner[1][0] == 'param':
            content_edges.add((br.bb, t_yes))                    # an IMMEDIATE_ACK is already pending
    moved = set()              # `self.pending |= take(x.retransmits)` reached only over the "x.retransmits is NOT empty" edge
    for c in bo:
        a0 = arg_desc(F, c, 0)
        if not (a0[0] == 'field' and a0[2] == 'pending' and a0[1][0] == 'param'):
            continue
        srcs = [x[3][0] for x in walk(arg_desc(F, c, 1)) if x[0] == 'call' and x[1].rsplit('::', 1)[-1] in ('take', 'replace') and x[3]]
        for br in branches(F, m):
            inner, t_yes, t_no = _bool_edges_of(br)
            if inner[0] == 'call' and inner[1].endswith('Retransmits::is_empty') and inner[3] and inner[3][0] in srcs and t_no is not None and t_yes != t_no:
                if m.dominates(br.bb, c.bb) and c.bb in m.reachable_from(t_no, avoid=[br.bb]) and c.bb not in m.reachable_from(t_yes, avoid=[br.bb]):
                    moved.add(c.bb)
    ok = bool(z) and bool(ping) and bool(ia) and bool(moved) and bool(ie) and all(tgt is not None and not _escapes(m, [tgt], avoid=ping | moved, avoid_edges=content_edges) for br, truth, tgt in z)
    ctx.check(ok, 'g', 'probe_always_has_content', m, m.where(), 'pending data | moved retransmits | ping_pending (unless immediate_ack_pending)', 'maybe_queue_probe can leave a loss probe with nothing ack-eliciting to send')
    for w in pp_:
        # ping is the fall-through: reachable only when nothing else was found
        ctx.check(any(m.dominates(br.bb, w.bb) for br in ie), 'g', 'ping_only_as_fallback', m, w.where(), 'ping_pending after the pending/retransmit checks', 'ping fallback order changed')


def rule_h(ctx):
    F = ctx.facts
    pt = ctx.pfn('Connection::poll_transmit')
    pd = pt.calls_to('Pacer::delay')
    st = [c for c in pt.calls_to('TimerTable::set') if any(n[0] == 'agg' and n[2].endswith('Timer::Pacing') for n in walk(arg_desc(F, c, 1)))]
    ok = bool(pd) and bool(st) and all(any(contains_site(arg_desc(F, s, 2), p) for p in pd) for s in st)
    ctx.check(ok, 'h', 'pacing_block_arms_pacing_timer', pt, pt.where(), 'if let Some(delay) = pacing.delay(..) { timers.set(Pacing, delay) }', 'a pacing-blocked poll_transmit no longer arms the Pacing timer (nothing would re-poll the connection)')
    for p in pd:
        for br in branches(F, pt):
            if br.desc[0] == 'discr' and is_site(br.desc[1], p):
                t_some = br.target(1)
                ok2 = path_avoiding(pt, [t_some], pt.return_blocks(), {s.bb for s in st}) is None
                ctx.check(ok2, 'h', 'pacing_timer_on_every_blocked_path', pt, p.where(), 'Some(delay) edge always sets the timer', 'a pacing-blocked path skips arming the timer')
    pp = ctx.pfn('Connection::process_payload')
    pr = pp.calls_to('PendingAcks::packet_received')
    st = [c for c in pp.calls_to('TimerTable::set') if any(n[0] == 'agg' and n[2].endswith('Timer::MaxAckDelay') for n in walk(arg_desc(F, c, 1)))]
    ok = bool(pr) and bool(st)
    for p in pr:
        for br in branches(F, pp):
            inner, neg = peel_not(br.desc)
            if inner[0] == 'call' and is_site(inner, p):
                t_yes = br.target(0 if neg else 1)
                if path_avoiding(pp, [t_yes], pp.return_blocks(), {s.bb for s in st}) is not None:
                    ok = False
    ctx.check(ok, 'h', 'delayed_ack_arms_max_ack_delay_timer', pp, pp.where(), 'packet_received(..) == true -> timers.set(MaxAckDelay, ..)', 'a delayed ACK no longer arms the MaxAckDelay timer (the ACK might never be sent)')


def rule_i(ctx):
    F = ctx.facts
    dl = ctx.pfn('Pacer::delay')
    st = [w for w in field_writes(F, 'pacing::Pacer', 'prev', crate='quinn_proto') if w.body.id == dl.id and w.kind == 'assign']
    ctx.floor('i', 'pacer_reference_time_stores', len(st), 1)
    guard_protects(ctx, 'i', 'pacer_time_advances_only_with_tokens', dl, lambda o, a, b: (o == 'Le' and D.render(a).find('new_tokens') >= 0 and D.has_const(b, 0)) or (o == 'Eq' and 'new_tokens' in D.render(a) + D.render(b) and (D.has_const(a, 0) or D.has_const(b, 0))),
                   [w.bb for w in st], what='new_tokens == 0', stop_named=True)


# --------------------------------------------------------------------------
# (j) a send stream for which Send::is_pending() holds is in the queue of streams with data to send
# --------------------------------------------------------------------------

def _pending_predicate_reads(ctx, pred):
    """(owner type, field) pairs that decide `pred` (Send::is_pending): the fields of `self` met in its returned value and
    branch conditions and in those of the workspace predicates it delegates to directly (SendBuffer::has_unsent_data; one
    level, so a collection such as `retransmits` is a leaf as a whole).  The field a followed predicate is called ON
    (Send.pending) is a container, not a leaf."""
    F = ctx.facts
    leaves = set()

    def visit(b, depth):
        owner = b.short.split('::')[0]

        def rec(x):
            if not isinstance(x, tuple) or not x:
                return
            if x[0] == 'field' and isinstance(x[1], tuple) and x[1] and x[1][0] == 'param':
                leaves.add((owner, x[2]))
                return
            if x[0] == 'call' and depth > 0 and x[2] in F.bodies and F.bodies[x[2]].kind == 'fn' and F.bodies[x[2]].crate == b.crate:
                visit(F.bodies[x[2]], depth - 1)
                return
            for y in x[1:]:
                if isinstance(y, tuple):
                    if y and isinstance(y[0], str):
                        rec(y)
                    else:
                        for z in y:
                            rec(z)
        for r, d in ret_descs(F, b):
            rec(d)
        for br in branches(F, b):
            rec(br.desc)
    visit(pred, 1)
    return leaves


def _pending_state_changes(ctx, pred):
    """sites OUTSIDE the impls of the types owning the pending state that can change what Send::is_pending() reports:
    direct stores to a field the predicate reads, and calls of a method of those types that (transitively, inside those
    impls) stores to one.  returns ({root fn id: [(body, bb, where, text)]}, leaves, owners)"""
    F = ctx.facts
    leaves = _pending_predicate_reads(ctx, pred)
    owners = {o for o, f in leaves}

    def owned(b):
        return F.root_of(b).short.split('::')[0] in owners and F.root_of(b).crate == pred.crate

    direct = {}
    for o, f in sorted(leaves):
        for w in field_writes(F, o, f, crate='quinn_proto'):
            if w.kind == 'mutborrow' and w.call is not None and is_noise(w.call):
                continue
            direct.setdefault(F.root_of(w.body).id, []).append((w, '%s.%s' % (o, f)))
    changers = {i for i in direct if owned(F.bodies[i])}
    grew = True
    while grew:
        grew = False
        for b in F.code_bodies('quinn_proto'):
            r = F.root_of(b)
            if r.id in changers or not owned(b):
                continue
            if any(c.bb in b.live_blocks() and c.f in changers for c in b.calls()):
                changers.add(r.id)
                grew = True
    sites = {}
    for i, ws in direct.items():
        if not owned(F.bodies[i]):
            for w, what in ws:
                sites.setdefault(i, []).append((w.body, w.bb, w.where(), 'store to ' + what))
    for b in F.code_bodies('quinn_proto'):
        if owned(b):
            continue
        live = b.live_blocks()
        for c in b.calls():
            if c.bb in live and c.f in changers:
                sites.setdefault(F.root_of(b).id, []).append((b, c.bb, c.where(), 'call of ' + short(c.f)))
    return sites, leaves, owners


_TRUE, _FALSE = ('const', 'int', '1', ''), ('const', 'int', '0', '')


def _pred_disjuncts(ctx, pred):
    """Send::is_pending stated structurally: when the body of `pred` is a pure short-circuit disjunction
    `A1 || A2 || .. || An` of reads of `self`, the list [(descriptor over ('param', 1, 'self'), inverted)] of its operands
    (operand i holds when its descriptor evaluates to `not inverted`); None when the body has any other shape.  Read off
    the MIR: every branch returns `true` on its holding edge and falls to the next operand on the other one, the last
    operand is the value returned when all branches fell through."""
    F = ctx.facts
    d = describer(F, pred)
    brs = {br.bb: br for br in branches(F, pred)}
    rets = set(pred.return_blocks())

    def returned_from(bb):
        seen = set()
        while bb not in seen:
            seen.add(bb)
            t = pred.blocks[bb]['t']
            if t[0] != 'goto':
                return None
            if t[1] in rets:
                return d.place([0, []], bb, term_idx(pred, bb))
            bb = t[1]
        return None

    atoms, cur, seen = [], 0, set()
    while True:
        if cur is None or cur in seen or cur in rets:
            return None
        seen.add(cur)
        t = pred.blocks[cur]['t']
        if t[0] == 'switch':
            br = brs.get(cur)
            if br is None:
                return None
            inner, t_yes, t_no = _bool_edges_of(br)
            if t_yes is None or t_no is None or t_yes == t_no or returned_from(t_yes) != _TRUE:
                return None
            atoms.append((inner, False))
            cur = t_no
        elif t[0] == 'call':
            cur = t[1].get('t')
        elif t[0] == 'goto':
            if t[1] in rets:
                v, neg = peel_not(d.place([0, []], cur, term_idx(pred, cur)))
                if v == _TRUE or v[0] == 'phi':
                    return None
                if v != _FALSE:
                    atoms.append((v, neg))
                break
            cur = t[1]
        else:
            return None
    if not atoms or not all(any(x[0] == 'param' for x in walk(a)) and all(x[0] != 'param' or x[1] == 1 for x in walk(a)) for a, n in atoms):
        return None
    return atoms


def _match_over_self(a, x, bind):
    """descriptor x is descriptor a with ('param', 1, 'self') replaced by ONE object (recorded in bind['S']); the block of a
    call node is not part of its identity"""
    if isinstance(a, tuple) and a and a[0] == 'param':
        if 'S' in bind:
            return bind['S'] == x
        bind['S'] = x
        return True
    if isinstance(a, tuple):
        if not isinstance(x, tuple):
            return False
        if a and a[0] == 'call':
            return bool(x) and x[0] == 'call' and len(x) >= 4 and a[1] == x[1] and a[2] == x[2] and _match_over_self(a[3], x[3], bind)
        return len(a) == len(x) and all(_match_over_self(p, q, bind) for p, q in zip(a, x))
    return a == x


class _WrittenOutSample:
    """the predicate written out in a function: anchor = block where its evaluation starts, yes / no = the branch edges
    (block, target) on which it is decided true / false, cut = the blocks of those branches and the anchor"""
    __slots__ = ('anchor', 'yes', 'no', 'cut', 'line')


def _written_out_samples(ctx, f, atoms):
    """Evaluations of the disjunction `atoms` (see _pred_disjuncts) spelled out in `f` on ONE object S, in any operand order,
    directly in a condition (`if !(a(S) || S.b)`) or through bool locals (`let q = a(S) || S.b; .. if !q`).
    Decided by walking every path from a block that evaluates an operand: the walk tracks which bool local holds which
    operand / constant / negation, forks at a branch on an operand, follows only the consistent edge of a branch on a known
    value, and ends at the first block that does anything else than assign locals (a store to memory, any other call, a
    branch on something unrelated).  The evaluation counts only if on EVERY path the predicate is decided by then (some
    operand true, or all false), nothing on the way can change state, and the anchor dominates all of it.  A condition that
    tests only some operands, mixes in other conditions before the decision, or combines the operands differently
    (`a && b`, inverted operand) is not accepted as a sample."""
    F = ctx.facts
    d = describer(F, f)
    brs = {br.bb: br for br in branches(F, f)}
    calls = {c.bb: c for c in f.calls()}
    live = f.live_blocks()

    def atom_of(x, bind):
        for i, (a, inv) in enumerate(atoms):
            b2 = dict(bind)
            if _match_over_self(a, x, b2):
                bind.update(b2)
                return i, inv
        return None

    def local_of(o):
        return o[1][0] if o[0] in ('c', 'm') and not o[1][1] else None

    def stmt_value(s, bb, j, env, bind):
        """value of a whole-local assignment: ('const', bool) | ('atom', i, inverted) | None"""
        rv = s[2]
        if rv[0] == 'use':
            o = rv[1]
            if o[0] == 'k':
                return ('const', o[2] == '1') if o[1] == 'int' and len(o) > 3 and o[3] == 'bool' else None
            if local_of(o) is not None:
                return env.get(local_of(o))
            m = atom_of(d.rvalue(rv, bb, j, 0), bind)
            return ('atom', m[0], m[1]) if m else None
        if rv[0] == 'un' and rv[1] == 'Not' and local_of(rv[2]) is not None:
            v = env.get(local_of(rv[2]))
            if v is None:
                return None
            return ('const', not v[1]) if v[0] == 'const' else ('atom', v[1], not v[2])
        return None

    def evaluates(bb):
        """index of the first statement of bb reading an operand (len(stmts) when the operand is the block's call)"""
        blk = f.blocks[bb]
        for j, s in enumerate(blk['s']):
            if s[0] == '=' and not s[1][1] and s[2][0] == 'use' and s[2][1][0] in ('c', 'm') and s[2][1][1][1]:
                if atom_of(d.rvalue(s[2], bb, j, 0), {}):
                    return j
        c = calls.get(bb)
        if blk['t'][0] == 'call' and c is not None and atom_of(d.call_desc(c, 0), {}):
            return len(blk['s'])
        return None

    out = []
    for e in sorted(live):
        j0 = evaluates(e)
        if j0 is None:
            continue
        acc = {True: set(), False: set(), 'bad': False}
        region = set()
        bind = {}

        def decided(known):
            if any(known.values()):
                return True
            return False if len(known) == len(atoms) else None

        def stop(known, last):
            v = decided(known)
            if v is None or last is None:
                acc['bad'] = True
            else:
                acc[v].add(last)

        def go(bb, start, env, known, last, onpath):
            if acc['bad']:
                return
            if bb in onpath:
                acc['bad'] = True
                return
            blk = f.blocks[bb]
            t = blk['t']
            stmts = list(enumerate(blk['s']))[start:]
            c = calls.get(bb)
            am = None
            pure = all(s[0] in ('live', 'dead', 'nop') or (s[0] == '=' and not s[1][1]) for j, s in stmts) and t[0] in ('goto', 'switch', 'call')
            if pure and t[0] == 'call':
                am = atom_of(d.call_desc(c, 0), bind) if c is not None and not c.dst[1] and c.t is not None else None
                pure = am is not None
            if not pure:
                return stop(known, last)
            region.add(bb)
            env = dict(env)
            for j, s in stmts:
                if s[0] == '=':
                    env[s[1][0]] = stmt_value(s, bb, j, env, bind)
            onpath = onpath | {bb}
            if t[0] == 'goto':
                return go(t[1], 0, env, known, last, onpath)
            if t[0] == 'call':
                env[c.dst[0]] = ('atom', am[0], am[1])
                return go(c.t, 0, env, known, last, onpath)
            br = brs.get(bb)
            l = local_of(t[1])
            v = env.get(l) if l is not None else None
            if br is None or v is None:
                return stop(known, last)
            if v[0] == 'const':
                tgt = br.target(1 if v[1] else 0)
                return go(tgt, 0, env, known, (bb, tgt), onpath) if tgt is not None else stop({}, None)
            i, inv = v[1], v[2]
            for holds in ((known[i],) if i in known else (True, False)):
                tgt = br.target(1 if (holds != inv) else 0)
                if tgt is None:
                    acc['bad'] = True
                    return
                k2 = dict(known)
                k2[i] = holds
                go(tgt, 0, env, k2, (bb, tgt), onpath)

        go(e, j0, {}, {}, None, frozenset())
        if acc['bad'] or not acc[True] or not acc[False] or (acc[True] & acc[False]):
            continue
        if not all(f.dominates(e, b) for b in region):
            continue
        sm = _WrittenOutSample()
        sm.anchor, sm.yes, sm.no = e, sorted(acc[True]), sorted(acc[False])
        sm.cut = {e} | {b for b, tg in acc[True] | acc[False]}
        t = f.blocks[e]['t']
        sm.line = t[1]['line'] if t[0] == 'call' else (f.blocks[e]['s'][j0][3] if j0 < len(f.blocks[e]['s']) else 0)
        out.append(sm)
    return out


def rule_j(ctx):
    """Queue membership.  write_stream_frames only ever looks at streams popped from StreamsState.pending, so a stream whose
    is_pending() is true but which is not in that queue is never transmitted again and nothing re-queues it (every site
    below pushes only when the stream was NOT pending before).  Two protocols keep `is_pending() => queued`:
      enqueue-if-absent   sample = is_pending(); [change]; if !sample { push }   -- the sample is taken BEFORE every change of
                          the state is_pending() reads (taken afterwards it is always true and nothing is pushed)
      requeue-if-pending  pop; change..; if is_pending() { push | reinsert }    -- the sample is taken AFTER every change
    decided per function on which edge of the branch on the sample reaches the push."""
    F = ctx.facts
    pred = ctx.pfn('Send::is_pending')
    sites, leaves, owners = _pending_state_changes(ctx, pred)
    ctx.floor('j', 'pending_predicate_fields', len(leaves), 2)
    PUSH = ('PendingStreamsQueue::push_pending', 'PendingStreamsQueue::reinsert_pending')
    # Send::is_pending as a disjunction of reads of `self` (None when its body is anything else): lets a function that
    # spells the predicate out on the same stream (`s.pending.has_unsent_data() || s.fin_pending`) count as taking a sample
    disj = _pred_disjuncts(ctx, pred)
    nfn = 0
    for rid in sorted(sites):
        f = F.bodies[rid]
        ms = sites[rid]
        nfn += 1
        if any(b.id != f.id for b, bb, where, text in ms):
            ctx.bad('j', 'pending_state_changed_inside_closure', f, f.where(), 'a change of the state read by Send::is_pending happens inside a closure of %s: ordering against the sample cannot be decided' % f.short)
            continue
        samples = [c for c in f.calls_to('Send::is_pending')]
        push = {c.bb for c in f.calls_to(*PUSH)}
        pops = {c.bb for c in f.calls_to('PendingStreamsQueue::pop')}
        # a decision = (blocks where the sample is taken, targets of the edges on which it is true, .. false, blocks that cut
        # the search for the push: the deciding branch(es) and, for a written-out sample, its first block)
        decisions = []
        for br in branches(F, f):
            inner, t_yes, t_no = _bool_edges_of(br)
            ss = [c for c in samples if inner[0] in ('call', 'phi') and is_site(inner, c)]
            if not ss or t_yes is None or t_no is None or t_yes == t_no:
                continue
            decisions.append(([c.bb for c in ss], [t_yes], [t_no], {br.bb}))
        written = _written_out_samples(ctx, f, disj) if disj else []
        for sm in written:
            decisions.append(([sm.anchor], [t for b, t in sm.yes], [t for b, t in sm.no], sm.cut))
        sample_bbs = {c.bb for c in samples} | {sm.anchor for sm in written}
        absent, requeue, odd = [], [], []
        for anchors, yes, no, cut in decisions:
            on_no = push & f.reachable_from(no, avoid=cut)
            on_yes = push & f.reachable_from(yes, avoid=cut)
            if on_no and not on_yes:
                absent.append((anchors, yes, no))
            elif on_yes and not on_no:
                requeue.append((anchors, yes, no))
            else:
                odd.append(anchors)
        if not push or not (absent or requeue):
            ctx.bad('j', 'pending_state_changed_without_queue_protocol', f, ms[0][2],
                    '%s changes the state read by Send::is_pending (%s) but has no branch on an is_pending() sample (a call, or the predicate written out on one stream) that decides a push into the pending-streams queue: a stream made pending here is never transmitted' % (f.short, ms[0][3]))
            continue
        ends = set(f.return_blocks())
        # (1) ordering of every change against the sample that decides the push
        bad = []
        for b, bb, where, text in ms:
            ok = False
            for anchors, yes, no in absent:
                if any(sb != bb and f.dominates(sb, bb) for sb in anchors):
                    ok = True
            for anchors, yes, no in requeue:
                for sb in anchors:
                    after = f.reachable_from(list(f.succ[sb]), avoid=pops)
                    sampled = bb == sb or path_avoiding(f, list(f.succ[bb]), ends | pops, {sb}) is None
                    if bb not in after and sampled:
                        ok = True
            if not ok:
                bad.append('%s at %s' % (text, where))
        kind = 'enqueue-if-absent' if absent and not requeue else ('requeue-if-pending' if requeue and not absent else 'mixed')
        ctx.check(not bad, 'j', 'pending_sample_ordered_against_change', f, ms[0][2],
                  '%s: %d change(s) of is_pending() state; sample %s' % (kind, len(ms), 'dominates every change' if absent else 'follows every change of the popped stream'),
                  '%s (%s): the is_pending() sample that decides the push is not taken %s: %s — the stream can end up pending but not queued' % (
                      f.short, kind, 'before the change (a sample taken afterwards is always true, so nothing is pushed)' if absent else 'after the change', '; '.join(bad)))
        # (2) the deciding edge always reaches the push before the function returns / the next stream is looked at
        esc = []
        for anchors, yes, no in absent:
            p = path_avoiding(f, no, ends | sample_bbs | pops, push)
            if p is not None:
                esc.append('not-pending edge: ' + fmt_path(f, p))
        for anchors, yes, no in requeue:
            p = path_avoiding(f, yes, ends | sample_bbs | pops, push)
            if p is not None:
                esc.append('still-pending edge: ' + fmt_path(f, p))
        ctx.check(not esc and not odd, 'j', 'deciding_edge_always_queues', f, ms[0][2], '%s: every path from the deciding edge passes push_pending / reinsert_pending' % kind,
                  '%s: %s' % (f.short, '; '.join(esc) if esc else 'a branch on is_pending() reaches the push on both edges or on neither: the push is not decided by the sample'))
    ctx.floor('j', 'pending_state_change_functions', nfn, 5)


# --------------------------------------------------------------------------
# (k) every stream the transmit path can pop from the pending-streams queue is seen by the "anything to send?" decision
# --------------------------------------------------------------------------

_WHOLE_RANGE = _ITER_VIEWS + ('as_ref', 'as_slice', 'as_deref')
_WHOLE_CONSUMERS = _WHOLE_RANGE + ('any', 'all', 'find', 'find_map', 'filter', 'filter_map', 'map', 'position', 'count', 'fold', 'try_fold',
                                   'for_each', 'peekable', 'next', 'is_some', 'is_none', 'flat_map', 'flatten', 'inspect')


def _last(path):
    return path.rsplit('::', 1)[-1]


def _peel_whole(d):
    """strip calls that present ALL elements of a collection / option (iter, into_iter, as_ref, cloned, ..)"""
    while isinstance(d, tuple) and d and d[0] == 'call' and len(d[3]) == 1 and _last(d[1]) in _WHOLE_RANGE:
        d = d[3][0]
    return d


def _whole_view_of_site(d, site):
    """d is the value of call `site`, possibly behind whole-range views (into_iter, by_ref, ..)"""
    while True:
        if is_site(d, site):
            return True
        if not (isinstance(d, tuple) and d and d[0] == 'call' and len(d[3]) == 1 and _last(d[1]) in _WHOLE_RANGE):
            return False
        d = d[3][0]


def _chain_leaves(d):
    """collections enumerated by an iterator expression built from `a.chain(b)` and whole-collection views:
    list of leaf descriptors (a leaf that is not `self.<field>` is returned as it is: the caller rejects it)"""
    d = _peel_whole(d)
    if isinstance(d, tuple) and d and d[0] == 'call' and _last(d[1]) == 'chain' and len(d[3]) == 2:
        return _chain_leaves(d[3][0]) + _chain_leaves(d[3][1])
    return [d]


def _self_field(d):
    return d[2] if isinstance(d, tuple) and len(d) == 3 and d[0] == 'field' and isinstance(d[1], tuple) and d[1] and d[1][0] == 'param' else None


def _site_consumed_whole(d, site):
    """the descriptor d contains call `site` and every call between the root of d and the site that takes the site's
    value as its receiver is a whole-range consumer (no skip / take / step_by / nth / rev().take ..)"""
    if is_site(d, site):
        return True
    if not (isinstance(d, tuple) and d):
        return False
    if d[0] == 'call':
        if d[3] and contains_site(d[3][0], site):
            return _last(d[1]) in _WHOLE_CONSUMERS and _site_consumed_whole(d[3][0], site)
        return False
    if d[0] == 'phi':
        alts = [x for x in d[1] if contains_site(x, site)]
        return bool(alts) and all(_site_consumed_whole(x, site) for x in alts)
    subs = [y for y in d[1:] if isinstance(y, tuple) and y and isinstance(y[0], str) and contains_site(y, site)]
    return len(subs) == 1 and _site_consumed_whole(subs[0], site)


def rule_k(ctx):
    """write_stream_frames takes streams from PendingStreamsQueue::pop; poll_transmit only builds a packet for stream data
    when StreamsState::can_send_stream_data (through PendingStreamsQueue::iter) finds a queued stream.  A slot of the queue
    that pop() yields from but the view does not enumerate holds streams that are never transmitted once they are the only
    thing left to send (no packet -> no ack -> no timer -> no event)."""
    import re
    F = ctx.facts
    q = F.adt('streams::PendingStreamsQueue')
    pop = ctx.pfn('PendingStreamsQueue::pop')
    it = ctx.pfn('PendingStreamsQueue::iter')
    # the element type is what pop() yields; a slot is a field of the queue that can hold one
    m = re.search(r'Option<(.+)>\s*$', pop.locals[0][0])
    elem = m.group(1).rsplit('::', 1)[-1] if m else None
    slots = [f[0] for f in q['variants'][0]['fields'] if elem and re.search(r'\b%s\b' % re.escape(elem), f[1])]
    ctx.floor('k', 'queue_slots', len(slots), 1)
    # (1) pop can yield from every slot
    taken = set()
    for b in F.family(pop):
        for c in b.calls():
            for i in range(len(c.args)):
                for x in walk(arg_desc(F, c, i)):
                    if _self_field(x) in slots:
                        taken.add(x[2])
                    if x[0] == 'upvar':
                        taken |= {f for f in slots if x[1].endswith('.' + f)}
    ctx.check(set(slots) <= taken, 'k', 'pop_yields_from_every_slot', pop, pop.where(), 'pop() takes from %s' % sorted(taken),
              'PendingStreamsQueue::pop never yields a stream held in slot(s) %s: a stream parked there is never transmitted' % sorted(set(slots) - taken))
    # (2) the read-only view enumerates every slot completely
    rets = [d for r, d in ret_descs(F, it)]
    seen, opaque = None, []
    for d in rets:
        ls = _chain_leaves(d)
        fs = {_self_field(x) for x in ls} - {None}
        opaque += [D.render(x)[:80] for x in ls if _self_field(x) not in slots]
        seen = fs if seen is None else (seen & fs)
    missing = sorted(set(slots) - (seen or set()))
    ctx.check(bool(rets) and not missing and not opaque, 'k', 'view_enumerates_every_slot', it, it.where(), 'iter() = whole-range chain over %s' % sorted(seen or ()),
              'PendingStreamsQueue::iter does not enumerate every stream pop() can yield (slot(s) not enumerated: %s%s): can_send_stream_data() reports nothing to send '
              'while such a stream is the only one left, so no packet is ever built for it' % (missing, '; not a whole-range view of a slot: %s' % opaque if opaque else ''))
    # (3) the send decision is taken over that view of StreamsState's queue, whole range
    cs = ctx.pfn('StreamsState::can_send_stream_data')
    st = F.adt('streams::state::StreamsState')
    qf = [f[0] for f in st['variants'][0]['fields'] if re.search(r'\bPendingStreamsQueue\b', f[1])]
    sites = [c for c in cs.calls_to('PendingStreamsQueue::iter') if _self_field(_peel_whole(arg_desc(F, c, 0))) in qf]
    rets = [d for r, d in ret_descs(F, cs)]
    ok = bool(sites) and bool(rets)
    for c in sites:
        direct = all(_site_consumed_whole(d, c) for d in rets)
        looped = any(_last(short(n.f)) == 'next' and len(n.args) == 1 and _whole_view_of_site(arg_desc(F, n, 0), c) for n in cs.calls())
        if not (direct or looped):
            ok = False
    ctx.check(ok, 'k', 'send_decision_examines_whole_queue', cs, cs.where(), 'self.pending.iter().any(..)',
              'can_send_stream_data no longer examines every element of PendingStreamsQueue::iter() of the pending-streams queue (range-limiting adaptor, or a different view)')


# --------------------------------------------------------------------------
# (l) a datagram that consumes a loss probe stays within the minimum MTU
# --------------------------------------------------------------------------

def _is_sum_of(d, a, b):
    return isinstance(d, tuple) and d[0] == 'bin' and d[1] == 'Add' and ((d[2] == a and d[3] == b) or (d[2] == b and d[3] == a))


def _is_diff_of(d, a, b):
    return isinstance(d, tuple) and ((d[0] == 'bin' and d[1] == 'Sub' and d[2] == a and d[3] == b) or
                                     (d[0] == 'call' and _last(d[1]) in ('saturating_sub', 'wrapping_sub') and len(d[3]) == 2 and d[3][0] == a and d[3][1] == b))


def _named_temp(pt, dn, v):
    """(value, def block, def index) when v is a user-named local of `pt` with exactly ONE definition, a plain `let t = <expr>;`
    statement: `value` is <expr> described with named locals kept as names.  None for anything else (re-assigned locals,
    call results, parameters)."""
    if not (isinstance(v, tuple) and v and v[0] == 'local' and v[2]):
        return None
    if v[1] in dn.mut_borrowed or 1 <= v[1] <= pt.argc:
        return None
    defs = pt.defs_of(v[1])
    if len(defs) != 1 or defs[0][0] != 'stmt':
        return None
    k, db, j, rv = defs[0]
    return dn.rvalue(rv, db, j, 0), db, j


def _unchanged_between(pt, dn, value, db, j, use_bb):
    """no named local read by `value` (computed at statement j of block db) can be re-assigned on a path from that
    statement to the terminator of use_bb that does not recompute the temporary: the temporary still equals the expression
    over the CURRENT values of those locals when it is tested"""
    after = pt.reachable_from(list(pt.succ[db]), avoid=[db])
    if use_bb != db and use_bb not in after:
        return False
    for x in walk(value):
        if x[0] != 'local':
            continue
        if x[1] in dn.mut_borrowed:
            return False
        for df in pt.defs_of(x[1]):
            if df[0] == 'arg':
                continue
            xb = df[1]
            if xb == db:
                # an earlier statement of the defining block runs again only after the definition itself was passed again
                if df[0] in ('call', 'callfield', 'yield') or df[2] > j:
                    return False
                continue
            if xb in after and (xb == use_bb or use_bb in pt.reachable_from([xb], avoid=[db])):
                return False
    return True


def rule_l(ctx):
    """PTO probes are what lets the sender notice that the path MTU shrank (their ack declares the large packets lost, which
    drives black-hole detection).  They only get through if they fit the minimum MTU: the datagram that consumes a loss probe
    is allotted min(.., INITIAL_MTU) bytes, and a packet is padded to a run-time size S only where its datagram was allotted
    at least S (start + S <= capacity).  Otherwise every probe is dropped as well and the connection never recovers."""
    F = ctx.facts
    pt = ctx.pfn('Connection::poll_transmit')
    dn = describer(F, pt, stop_named=True)
    pb = ctx.pfn('PacketBuilder::new')
    names = [nm for ty, nm in pb.locals]
    try:
        i_cap, i_start = names.index('buffer_capacity') - 1, names.index('datagram_start') - 1
    except ValueError:
        raise CheckBroken('PacketBuilder::new has no buffer_capacity / datagram_start parameter')
    news = pt.calls_to('PacketBuilder::new')
    built = [(c, dn.operand(c.args[i_cap], c.bb, term_idx(pt, c.bb)), dn.operand(c.args[i_start], c.bb, term_idx(pt, c.bb))) for c in news]
    ctx.floor('l', 'packet_builder_sites', len(built), 1)
    # ---- allotment: capacity increments after a loss probe was consumed are clamped to INITIAL_MTU
    dec = [w for w in field_writes(F, 'PacketSpace', 'loss_probes', crate='quinn_proto') if w.body.id == pt.id and w.kind == 'assign']
    caps = {cap[1] for c, cap, start in built if cap[0] == 'local'}
    incs = []        # (block, increment descriptor)
    for i, j, pl, rv, line in pt.assigns():
        if pl[0] in caps and not pl[1]:
            x = dn.rvalue(rv, i, j, 0)
            if x[0] == 'bin' and x[1] == 'Add':
                me = [y for y in (x[2], x[3]) if y[0] == 'local' and y[1] == pl[0]]
                if me:
                    incs.append((i, x[3] if x[2] == me[0] else x[2]))
    inc_bbs = {i for i, v in incs}
    def clamped(v):
        if v[0] == 'call' and _last(v[1]) == 'min' and len(v[3]) == 2:
            return any(_is_named_const(x, 'INITIAL_MTU') for x in v[3])
        return False

    after_probe = set()
    for w in dec:
        after_probe |= pt.reachable_from([w.bb], avoid=inc_bbs) | (inc_bbs & pt.reachable_from([w.bb]))
    bad, nclamped = [], 0
    for bb, v in incs:
        if v[0] == 'local':
            defs = []
            for df in pt.defs_of(v[1]):
                if df[0] == 'stmt':
                    defs.append((df[1], dn.rvalue(df[3], df[1], df[2], 0)))
                elif df[0] == 'call':
                    defs.append((df[1], dn.call_desc(df[2], 0)))
                else:
                    defs.append((None, ('?',)))
        else:
            defs = [(None, x) for x in _flat_all(v)]
        for db, x in defs:
            if clamped(x):
                nclamped += db is None or any(db in pt.reachable_from([w.bb], avoid=inc_bbs) for w in dec)
            elif db is None or any(db in pt.reachable_from([w.bb], avoid=inc_bbs) for w in dec):
                bad.append(D.render(x)[:60])
    ctx.check(bool(dec) and bool(incs) and nclamped > 0 and not bad, 'l', 'loss_probe_datagram_allotment_clamped', pt, pt.where(),
              'after loss_probes -= 1 the datagram capacity grows by min(.., INITIAL_MTU)',
              'a datagram that consumes a loss probe is allotted %s instead of min(.., INITIAL_MTU): after a path-MTU reduction no probe gets through' % (bad or 'nothing recognisable'))
    # ---- padding: never beyond the allotment
    floor_mtu = F.const_int('quinn_proto::INITIAL_MTU')
    n = 0
    for c in pt.calls_to('PacketBuilder::pad_to'):
        n += 1
        a = dn.operand(c.args[1], c.bb, term_idx(pt, c.bb))
        if a[0] == 'const' and a[1] == 'int':
            ctx.check(int(a[2]) <= floor_mtu, 'l', 'padding_within_datagram_allotment', pt, c.where(), 'constant %s <= INITIAL_MTU' % a[2],
                      'pad_to(%s) exceeds INITIAL_MTU' % a[2])
            continue
        # the builder was allotted exactly the padded size (MTU probe: capacity = probe size, start = 0; not a loss probe)
        recv, full = arg_desc(F, c, 0), arg_desc(F, c, 1)
        own = [s for s in news if contains_site(recv, s)]
        if len(own) == 1 and arg_desc(F, own[0], i_cap) == full and arg_desc(F, own[0], i_start) == ('const', 'int', '0', ''):
            ctx.ok('l', 'padding_within_datagram_allotment', pt, c.where(), 'builder allotted exactly the padded size')
            continue
        # otherwise: dominated by `start + S <= capacity` of a builder of this function, unreachable from its violating edge
        # the sum / difference may sit behind a named temporary (`let end = start + S; if cap >= end`): such an operand
        # stands for its defining expression when the temporary has that single definition and none of the locals the
        # expression reads can change between the definition and the test
        def fits(o, x, y, at=None):
            if o != 'Lt':
                return False
            tx, ty = _named_temp(pt, dn, x), _named_temp(pt, dn, y)
            alts_x = [(x, None, None)] + ([tx] if tx else [])
            alts_y = [(y, None, None)] + ([ty] if ty else [])
            for ax in alts_x:
                for ay in alts_y:
                    vx, vy = ax[0], ay[0]
                    if not any((vx == cap and _is_sum_of(vy, start, a)) or (_is_diff_of(vx, cap, start) and vy == a) for s, cap, start in built):
                        continue
                    if at is None or all(t[1] is None or _unchanged_between(pt, dn, t[0], t[1], t[2], at) for t in (ax, ay)):
                        return True
            return False
        es = guard_edges(ctx, pt, fits, stop_named=True)
        es = [(br, truth, tgt) for br, truth, tgt in es if fits(*relation_on(br.desc, truth), at=br.bb)]
        cov = any(pt.dominates(br.bb, c.bb) and c.bb not in pt.reachable_from([tgt], avoid=[br.bb]) for br, truth, tgt in es if tgt is not None)
        ctx.check(cov, 'l', 'padding_within_datagram_allotment', pt, c.where(), 'pad_to(%s) only where datagram_start + size <= buf_capacity' % D.render(a)[:40],
                  'a packet is padded to the run-time size %s although its datagram may have been allotted less (no dominating `start + size <= capacity` test on the '
                  'values handed to PacketBuilder::new): a loss probe clamped to INITIAL_MTU is padded back to the full segment size and is dropped on a path whose MTU shrank' % D.render(a)[:40])
    ctx.floor('l', 'pad_to_sites', n, 3)


def run(ctx):
    rule_a(ctx)
    rule_b(ctx)
    rule_c(ctx)
    rule_d(ctx)
    rule_e(ctx)
    ctx.info('f', 'loss-probe exemption from the congestion/pacing gate is rule C12.c (gate_entered_iff_loss_probes)')
    rule_g(ctx)
    rule_h(ctx)
    rule_i(ctx)
    rule_j(ctx)
    rule_k(ctx)
    rule_l(ctx)
    # obligations shared with a sibling property (evaluated by the owning module, reported here under letter x)
    from engine.rulelib import share as _share
    _share(ctx, 'C17', 'rule_c_finished', 'x', 'a stream finished in 0-RTT is re-queued with its FIN after a Retry (otherwise the stream never completes)')
    _share(ctx, 'C18', 'rule_c', 'x', 'every mutation of connection state through the async API wakes the driver (otherwise queued frames are never sent on an idle connection)')

