"""C10 — wire encodings round-trip; decoders are total (structural part)."""
from engine.rulelib import *
import re
from engine import desc as D
from rules import C03 as _c03

EXPLANATION = ("Static rules over quinn-proto MIR: (a) decoder totality = the GUARDED-READ obligation set of C03.a evaluated for this property; (b) the frame-type "
               "table agrees across its users: FrameType constants = arms of frame::Iter::try_next = types written by the encoders (with named never-sent "
               "exceptions); (c) transport-parameter tables agree: enum discriminants = TryFrom<u64> arms = SUPPORTED elements; write and read dispatch on the same "
               "id sets; (d) varint size/encode/decode agree on the 2^6/2^14/2^30 boundaries and tags; packet-number length tables agree; the packet-number "
               "expansion guard compares the candidate on both sides; (e) long-header type bits are inverse tables; (f) coalesced packets split at position+len and "
               "truncated lengths are rejected; (g) token addresses are written as given, tag tables inverse; (h) preferred_address halves absent <=> own placeholder; "
               "(i) STREAM frames: OFF/LEN/FIN type bits <=> fields in StreamMeta::encode, the same masks and field reads in StreamInfo / Iter::try_next, range + length flag + room of one "
               "poll_transmit at the encode site, and (shared with C01.e) the length field omitted only when the range fills that room. Round-trip equality for all values is value-level and NOT decided.")
RULE = "rule instances = table-agreement comparisons and guarded-read sites; non-trivial = bound to real constants / sites"


def switch_values(br):
    return sorted(v for v, _ in br.edges if v is not None)


# --------------------------------------------------------------------------
# small structural helpers (value sets of descriptors, exact shapes, edges)
# --------------------------------------------------------------------------

def _ival(v):
    try:
        return int(str(v).split('_')[0], 0)
    except ValueError:
        return None


_OPS = {
    'Add': lambda a, b: a + b, 'Sub': lambda a, b: a - b, 'Mul': lambda a, b: a * b,
    'Div': lambda a, b: a // b if b else None, 'Rem': lambda a, b: a % b if b else None,
    'BitAnd': lambda a, b: a & b, 'BitOr': lambda a, b: a | b, 'BitXor': lambda a, b: a ^ b,
    'Shl': lambda a, b: a << b if 0 <= b < 64 else None, 'Shr': lambda a, b: a >> b if 0 <= b < 64 else None,
}


def evs(d, env=None, body=None, ranges=None):
    """the set of integer values a descriptor can take (casts are erased by the describer), or None when it is not
    decidable.  env: {param index: set}; bool parameters of `body` range over {0, 1}; `RangeInclusive::start/end` of a
    named range constant is looked up in `ranges` ({last path segment: (start, end)})."""
    t = d[0]
    if t == 'const':
        if d[1] != 'int':
            return None
        v = _ival(d[2])
        return None if v is None else {v}
    if t == 'param':
        if env and d[1] in env:
            return set(env[d[1]])
        if body is not None and body.locals[d[1]][0] == 'bool':
            return {0, 1}
        return None
    if t == 'phi':
        out = set()
        for x in d[1]:
            r = evs(x, env, body, ranges)
            if r is None:
                return None
            out |= r
        return out
    if t == 'bin' and d[1] in _OPS:
        a, b = evs(d[2], env, body, ranges), evs(d[3], env, body, ranges)
        if a is None or b is None or len(a) * len(b) > 4096:
            return None
        out = set()
        for x in a:
            for y in b:
                r = _OPS[d[1]](x, y)
                if r is None or r < 0:
                    return None
                out.add(r)
        return out
    if t == 'call' and d[1] in ('RangeInclusive::start', 'RangeInclusive::end') and len(d[3]) == 1 and d[3][0][0] == 'const' and d[3][0][3] and ranges:
        r = ranges.get(d[3][0][3].split('::')[-1])
        if r is not None:
            return {r[0] if d[1].endswith('start') else r[1]}
    return None


def _is_c(d, v):
    return d[0] == 'const' and d[1] == 'int' and _ival(d[2]) == v


def _bin(d, op):
    return d[0] == 'bin' and d[1] == op and len(d) >= 4


def _comm(d, op, pa, pb):
    """commutative node `op` whose operands satisfy pa and pb in either order"""
    return _bin(d, op) and ((pa(d[2]) and pb(d[3])) or (pa(d[3]) and pb(d[2])))


def _kids(d):
    t = d[0] if d else None
    if t in ('field', 'variant', 'index', 'discr', 'overflow'):
        return [d[1]]
    if t == 'un':
        return [d[2]]
    if t == 'bin':
        return [d[2], d[3]]
    if t in ('call', 'agg'):
        return list(d[3])
    if t == 'phi':
        return list(d[1])
    return []


def _bare(d, pred, stops):
    """pred holds for a node of d that is not inside a sub-tree satisfying one of `stops`"""
    if not isinstance(d, tuple) or any(s(d) for s in stops):
        return False
    if pred(d):
        return True
    return any(_bare(k, pred, stops) for k in _kids(d))


def _contains(d, pred):
    return any(pred(x) for x in walk(d))


def rel_edges(F, body, pred):
    """(Branch, target) of every branch edge on which a relation (op, a, b) satisfying pred holds"""
    out = []
    for br in branches(F, body):
        for truth in (True, False):
            rel = relation_on(br.desc, truth)
            if rel is not None and pred(*rel):
                out.append((br, br.target(1 if truth else 0)))
    return out


def only_via(body, edges, bb):
    """every path entry -> bb uses one of the edges of the list [(Branch, target)] (and there is one)"""
    return bool(edges) and bb not in body.reachable_from(0, avoid_edges={(br.bb, t) for br, t in edges})


def closures_of(F, body, d):
    """closure bodies constructed in descriptor d"""
    names = {x[2] for x in walk(d) if x[0] == 'agg' and x[1] == 'closure'}
    return [b for b in F.bodies.values() if b.kind == 'closure' and b.canon in names]


def rule_b(ctx):
    F = ctx.facts
    consts = {}
    for p, c in F.consts.items():
        if '::frame::FrameType::' in p and c['kind'] == 'int':
            consts[p.split('::')[-1]] = int(c['val'])
    ctx.check(len(consts) >= 25, 'b', 'frame_type_constants', 'FrameType', '', '%d constants' % len(consts), 'FrameType constants not found')
    tn = ctx.pfn('Iter::try_next')
    big = [br for br in branches(F, tn) if len(br.edges) > 10]
    ctx.check(len(big) == 1, 'b', 'decoder_dispatch_switch', tn, tn.where(), 'one dispatch switch', 'cannot locate the frame type dispatch of Iter::try_next')
    if big:
        vals = set(switch_values(big[0]))
        cv = set(consts.values())
        ctx.check(vals == cv, 'b', 'decoder_arms_equal_frame_type_constants', tn, big[0].where(), '%d arms = %d constants' % (len(vals), len(cv)),
                  'frame types without a decode arm: %s; decode arms without a constant: %s' % (sorted(hex(x) for x in cv - vals), sorted(hex(x) for x in vals - cv)))
    # stream / datagram ranges handled in the fallback arm
    ctx.check(bool(tn.calls_to('FrameType::stream')) and bool(tn.calls_to('FrameType::datagram')), 'b', 'ranged_types_decoded', tn, tn.where(), 'STREAM/DATAGRAM type ranges handled', 'STREAM or DATAGRAM type ranges are no longer decoded')
    # encoders: named constants, and literal `FrameType(<expr>)` writes whose value set is computed
    written = {}
    ranges = {}
    for p, c in F.consts.items():
        if '::frame::' in p and 'RangeInclusive' in c.get('ty', ''):
            m = re.search(r'start: (\d+)_u64, end: (\d+)_u64', str(c.get('val', '')))
            if m:
                ranges[p.split('::')[-1]] = (int(m.group(1)), int(m.group(2)))
    ctx.check({'STREAM_TYS', 'DATAGRAM_TYS'} <= set(ranges), 'b', 'frame_type_ranges', 'FrameType', '', str(sorted(ranges.items())), 'STREAM_TYS / DATAGRAM_TYS range constants not found')
    allowed = set(consts.values())
    for lo, hi in ranges.values():
        allowed |= set(range(lo, hi + 1))
    unknown = {}
    n_lit = 0
    for c in F.all_calls('quinn_proto'):
        if (c.is_('BufMutExt::write') or short(c.f).endswith('BufMutExt>::write')) and any('FrameType' in g for g in c.ga):
            root = F.root_of(c.body)
            for x in flat(arg_desc(F, c, 1)):
                if x[0] == 'const' and x[3] and 'FrameType::' in x[3]:
                    written.setdefault(x[3].split('::')[-1], []).append(root.short)
                elif x[0] == 'agg' and x[1] == 'adt' and x[2].endswith('FrameType::FrameType') and len(x[3]) == 1:
                    n_lit += 1
                    vs = evs(x[3][0], None, c.body, ranges)
                    if vs is None:
                        unknown[c.where()] = 'value of FrameType(%s) cannot be computed' % D.render(x[3][0])[:100]
                    elif vs - allowed:
                        unknown[c.where()] = '%s writes frame type(s) %s that no decoder arm or range accepts' % (root.short, sorted(hex(v) for v in vs - allowed))
                else:
                    unknown[c.where()] = '%s writes a frame type that is neither a table constant nor a computable literal: %s' % (root.short, D.render(x)[:100])
    ctx.floor('b', 'literal_frame_type_writes', n_lit, 1)
    NEVER_SENT = {'PADDING': 'padding is produced by zero-filling the buffer', 'DATA_BLOCKED': 'quinn never sends DATA_BLOCKED', 'STREAM_DATA_BLOCKED': 'quinn never sends STREAM_DATA_BLOCKED'}
    for name in sorted(consts):
        if name in NEVER_SENT:
            ctx.ok('b', 'frame_type_has_encoder', 'FrameType::' + name, '', 'exception: ' + NEVER_SENT[name])
            continue
        ctx.check(name in written, 'b', 'frame_type_has_encoder', 'FrameType::' + name, '', 'written by %s' % sorted(set(written.get(name, [])))[:3], 'FrameType::%s is decoded but no encoder writes it' % name)
    for name in sorted(set(written) - set(consts)):
        unknown['FrameType::' + name] = 'written but not an integer table constant'
    ctx.check(not unknown, 'b', 'encoders_use_known_types', 'FrameType', '', 'every written type is a table constant or lies in STREAM_TYS / DATAGRAM_TYS (%d literal writes evaluated)' % n_lit,
              'encoders write unknown frame types: %s' % sorted(unknown.items()))
    # Frame::ty covers every Frame variant
    fr = F.adt('frame::Frame')
    ty = ctx.pfn('Frame::ty')
    disp = [br for br in branches(F, ty) if br.desc[0] == 'discr' and len(br.edges) > 10]
    ctx.check(bool(disp) and len(switch_values(disp[0])) + 1 >= len(fr['variants']), 'b', 'frame_ty_total', ty, ty.where(), '%d variants' % len(fr['variants']), 'Frame::ty does not cover every Frame variant')


def rule_c(ctx):
    F = ctx.facts
    tp = F.adt('transport_parameters::TransportParameterId')
    discr = {v['name']: int(v['discr']) for v in tp['variants']}
    tf = ctx.pfn('<TransportParameterId as TryFrom>::try_from')
    # a chain of `id if Self::X == id => Self::X` arms: the variant compared (promoted constant) and the variant returned must agree
    eqs = [c for c in tf.calls() if c.is_('PartialEq::eq') or short(c.f).endswith('PartialEq>::eq')]
    d = describer(F, tf)
    seen = set()
    okpairs = True
    for c in eqs:
        a0 = arg_desc(F, c, 0)
        gv = [x[2].split('::')[-1] for x in walk(a0) if x[0] == 'agg' and x[1] == 'adt' and 'TransportParameterId' in x[2]]
        if not gv:
            continue
        # the true edge of the branch on this call constructs the same variant
        for br in branches(F, tf):
            inner, neg = peel_not(br.desc)
            if inner[0] in ('call', 'bin') and contains_site(inner, c):
                tgt = br.target(0 if neg else 1)
                rv = [rv_[1][2] for i, j, pl, rv_, line in tf.assigns() if i in tf.reachable_from(tgt, avoid=[x.bb for x in eqs if x.bb != c.bb]) and rv_[0] == 'agg' and rv_[1][0] == 'adt' and rv_[1][1].endswith('TransportParameterId')]
                if rv and rv[0] != gv[0] and gv[0] not in rv[:1]:
                    okpairs = False
                    ctx.bad('c', 'try_from_arm_returns_compared_variant', tf, c.where(), 'arm compares with %s but returns %s' % (gv[0], rv[0]))
                seen.add(gv[0])
    ctx.check(okpairs and seen == set(discr), 'c', 'try_from_arms_equal_discriminants', tf, tf.where(), '%d ids' % len(seen),
              'TransportParameterId::try_from arms differ from the enum variants: missing %s' % sorted(set(discr) - seen))
    sup = F.const_body('TransportParameterId::SUPPORTED')
    elems = []
    for i, j, pl, rv, line in sup.assigns():
        if rv[0] == 'agg' and rv[1][0] == 'adt' and rv[1][1].endswith('TransportParameterId'):
            elems.append(rv[1][2])
    ctx.check(sorted(elems) == sorted(discr), 'c', 'supported_lists_every_id_once', sup, sup.where(), '%d elements' % len(elems),
              'SUPPORTED %s is not a permutation of the enum variants (missing %s, duplicated %s)' % (len(elems), sorted(set(discr) - set(elems)), sorted(x for x in elems if elems.count(x) > 1)))
    # write / read dispatch on the same ids
    wr = ctx.pfn('TransportParameters::write')
    rd = ctx.pfn('TransportParameters::read')

    def handled(b):
        out = set()
        for br in branches(F, b):
            if br.desc[0] == 'discr' and len(br.edges) >= 5 and ('TransportParameterId' in D.render(br.desc) or 'SUPPORTED' in D.render(br.desc) or 'try_from' in D.render(br.desc)):
                out |= set(switch_values(br))
        return out
    hw, hr = handled(wr), handled(rd)
    # discriminant switch values are enum discriminants
    ids = set(discr.values())
    ctx.check(hw and hw <= ids and hr and hr <= ids, 'c', 'tp_dispatch_found', wr, wr.where(), 'write arms %d, read arms %d' % (len(hw), len(hr)), 'cannot locate the id dispatch of write/read')
    only_w = hw - hr - {discr['ReservedTransportParameter']}
    ctx.check(not only_w, 'c', 'every_written_id_is_read', rd, rd.where(), 'ids with an explicit arm in write also have one in read',
              'transport parameter ids %s are written but have no arm in read()' % sorted(hex(x) for x in only_w))


def rule_d(ctx):
    F = ctx.facts
    sz = ctx.pfn('VarInt::size')
    enc = ctx.pfn('<VarInt as Codec>::encode')
    dec = ctx.pfn('<VarInt as Codec>::decode')

    def pow_bounds(b):
        out = set()
        for br in branches(F, b):
            for x in walk(br.desc):
                if x[0] == 'call' and x[1] == 'u64::pow' and x[3][0][0] == 'const' and x[3][1][0] == 'const':
                    out.add((int(x[3][0][2]), int(x[3][1][2])))
        return out
    ps, pe = pow_bounds(sz), pow_bounds(enc)
    exp = {(2, 6), (2, 14), (2, 30), (2, 62)}
    ctx.check(ps == exp, 'd', 'varint_size_boundaries', sz, sz.where(), str(sorted(ps)), 'VarInt::size boundaries %s differ from 2^6/2^14/2^30/2^62' % sorted(ps))
    ctx.check(pe == exp, 'd', 'varint_encode_boundaries', enc, enc.where(), str(sorted(pe)), 'VarInt::encode boundaries %s differ from 2^6/2^14/2^30/2^62' % sorted(pe))
    ctx.check(ps == pe, 'd', 'varint_size_encode_agree', sz, sz.where(), 'same boundary set', 'VarInt::size and VarInt::encode disagree on encoding-size boundaries')
    rs = sorted({str(c) for _, x in ret_descs(F, sz) for y in flat(x) if y[0] == 'const' for c in [y[2]]})
    ctx.check(rs == ['1', '2', '4', '8'], 'd', 'varint_sizes', sz, sz.where(), str(rs), 'VarInt::size returns %s instead of 1/2/4/8' % rs)
    # decode: tag switch 0..3 and guards 1/3/7
    tags = [br for br in branches(F, dec) if len(br.edges) == 4 or (len(br.edges) == 5)]
    tv = set()
    for br in tags:
        tv |= set(switch_values(br))
    ctx.check({0, 1, 2} <= tv, 'd', 'varint_decode_tag_dispatch', dec, dec.where(), 'tags %s' % sorted(tv), 'VarInt::decode tag dispatch changed')
    # encoder tags: 0b01<<14 (0x4000), 0b10<<30, 0b11<<62
    shl = set()
    for i, j, pl, rv, line in enc.assigns():
        x = describer(F, enc).rvalue(rv, i, j, 0)
        for n in walk(x):
            if n[0] == 'bin' and n[1] == 'Shl' and n[2][0] == 'const' and n[3][0] == 'const':
                shl.add((int(n[2][2]), int(n[3][2])))
    want = {(1, 14), (2, 30), (3, 62)}
    ctx.check(want <= shl, 'd', 'varint_encode_tags', enc, enc.where(), 'tags 0b01<<14, 0b10<<30, 0b11<<62', 'VarInt::encode tag constants changed: %s' % sorted(shl))
    # packet number lengths
    pn_new = ctx.pfn('PacketNumber::new')
    pn_len = ctx.pfn('PacketNumber::len')
    pn_dec = ctx.pfn('PacketNumber::decode')
    pn_dl = ctx.pfn('PacketNumber::decode_len')
    lens = sorted({str(y[2]) for _, x in ret_descs(F, pn_len) for y in flat(x) if y[0] == 'const'})
    ctx.check(lens == ['1', '2', '3', '4'], 'd', 'packet_number_lengths', pn_len, pn_len.where(), str(lens), 'PacketNumber::len returns %s' % lens)
    dv = set()
    for br in branches(F, pn_dec):
        if D.has_param(br.desc, name='len'):
            dv |= set(switch_values(br))
    ctx.check(dv == {1, 2, 3, 4}, 'd', 'packet_number_decode_lengths', pn_dec, pn_dec.where(), str(sorted(dv)), 'PacketNumber::decode dispatches on lengths %s' % sorted(dv))
    # decode_len: evaluated for every first byte, must equal 1 + (low two bits) -- any equivalent formula is accepted
    rd = [x for _, x in ret_descs(F, pn_dl)]
    ok = bool(rd) and pn_dl.argc == 1 and all(evs(x, {1: {t}}) == {1 + (t & 3)} for x in rd for t in range(256))
    ctx.check(ok, 'd', 'packet_number_decode_len_formula', pn_dl, pn_dl.where(), '1 + (tag & 3) for all 256 tag bytes', 'decode_len is no longer 1 + (tag & 0x03): ' + ' | '.join(D.render(x)[:80] for x in rd))
    rule_d_expand(ctx)


# ---- PacketNumber::expand (RFC 9000 A.3): shapes are decided on the fully expanded value descriptors, never on local names
def _pn_self(d):
    return d[0] == 'param' and d[1] == 1


def _pn_expected(d):
    return d[0] == 'param' and d[1] == 2


def _pn_nbits(d):
    is_len = lambda x: x[0] == 'call' and x[1] == 'PacketNumber::len' and len(x[3]) == 1 and _pn_self(x[3][0])
    return _comm(d, 'Mul', is_len, lambda x: _is_c(x, 8)) or (_bin(d, 'Shl') and is_len(d[2]) and _is_c(d[3], 3))


def _pn_win(d):
    return _bin(d, 'Shl') and _is_c(d[2], 1) and _pn_nbits(d[3])


def _pn_hwin(d):
    return ((_bin(d, 'Div') and _pn_win(d[2]) and _is_c(d[3], 2)) or (_bin(d, 'Shr') and _pn_win(d[2]) and _is_c(d[3], 1))
            or (_bin(d, 'Shl') and _is_c(d[2], 1) and _bin(d[3], 'Sub') and _pn_nbits(d[3][2]) and _is_c(d[3][3], 1)))


def _pn_mask(d):
    return _bin(d, 'Sub') and _pn_win(d[2]) and _is_c(d[3], 1)


def _pn_trunc(d):
    alts = flat(d)
    ok = all(x[0] == 'field' and x[2] == '0' and x[1][0] == 'variant' and _pn_self(x[1][1]) for x in alts)
    return ok and {x[1][2] for x in alts} == {'U8', 'U16', 'U24', 'U32'}


def _pn_cand(d):
    keep_high = lambda x: _comm(x, 'BitAnd', _pn_expected, lambda y: y[0] == 'un' and y[1] == 'Not' and _pn_mask(y[2]))
    return _comm(d, 'BitOr', keep_high, _pn_trunc)


def _pn_lower_bound(d):
    """payload of `expected.checked_sub(hwin)` in its Some arm, i.e. expected - hwin where that does not underflow"""
    if not (d[0] == 'field' and d[2] == '0' and d[1][0] == 'variant' and d[1][2] == 'Some'):
        return False
    cs = d[1][1]
    return cs[0] == 'call' and cs[1] == 'u64::checked_sub' and len(cs[3]) == 2 and _pn_expected(cs[3][0]) and _pn_hwin(cs[3][1])


def rule_d_expand(ctx):
    F = ctx.facts
    ex = ctx.pfn('PacketNumber::expand')
    has_cand = lambda d: _contains(d, _pn_cand)
    stops = (_pn_cand, _pn_hwin, _pn_mask)
    # every comparison against the bare window must test the candidate
    cand = 0
    for br in branches(F, ex):
        rel = relation_on(br.desc, True)
        if rel is None:
            continue
        o, a, b = rel
        if _bare(a, _pn_win, stops) or _bare(b, _pn_win, stops):
            if has_cand(a) or has_cand(b):
                cand += 1
            else:
                ctx.bad('d', 'pn_expand_guard_on_candidate', ex, br.where(), 'a window-wrap guard of PacketNumber::expand does not test `candidate`: %s' % D.render(br.desc)[:160])
    ctx.check(cand >= 1, 'd', 'pn_expand_guard_on_candidate', ex, ex.where(), '%d candidate window guards' % cand, 'PacketNumber::expand lost a candidate-vs-window guard')
    # RFC 9000 A.3 shape: the decoding window is centred on `expected`: (expected - hwin, expected + hwin], hwin = win / 2
    # offsets applied to `expected` in the window-edge guards
    offs = []
    for br in branches(F, ex):
        for x in walk(br.desc):
            if x[0] == 'call' and x[1] in ('u64::checked_sub', 'u64::saturating_sub', 'u64::wrapping_sub') and len(x[3]) == 2 and _pn_expected(x[3][0]):
                offs.append(x[3][1])
            elif _bin(x, 'Sub') and _pn_expected(x[2]):
                offs.append(x[3])
            elif _bin(x, 'Add') and (_pn_expected(x[2]) or _pn_expected(x[3])):
                offs.append(x[3] if _pn_expected(x[2]) else x[2])
    okh = len(offs) >= 2 and all(_pn_hwin(x) for x in offs)
    ctx.check(okh, 'd', 'pn_expand_half_window', ex, ex.where(), 'both window edges are expected -/+ (1 << nbits) / 2',
              'the window edges around `expected` are no longer half the truncation window: ' + ' | '.join(D.render(x)[:80] for x in offs))
    # upper edge: candidate > expected + hwin ; underflow guard: candidate > win
    up = rel_edges(F, ex, lambda o, a, b: o == 'Lt' and _pn_cand(b) and _comm(a, 'Add', _pn_expected, _pn_hwin))
    wn = rel_edges(F, ex, lambda o, a, b: o == 'Lt' and _pn_cand(b) and _pn_win(a))
    # lower edge: expected.checked_sub(hwin).is_some_and(|x| candidate <= x)   (or candidate <= expected - hwin / candidate + hwin <= expected)
    #   the Option may also be taken apart by hand: `match expected.checked_sub(hwin) { Some(x) => candidate <= x, None => false }`
    #   / `if let Some(x) = .. { if candidate <= x ..` -- the payload `(checked_sub(expected, hwin) as Some).0` IS expected - hwin
    lo_rel = lambda o, a, b: o == 'Le' and ((_pn_cand(a) and ((_bin(b, 'Sub') and _pn_expected(b[2]) and _pn_hwin(b[3])) or _pn_lower_bound(b))) or (_comm(a, 'Add', _pn_cand, _pn_hwin) and _pn_expected(b)))
    lo = rel_edges(F, ex, lo_rel)
    for br in branches(F, ex):
        d, neg = peel_not(br.desc)
        if d[0] == 'phi':
            # a named boolean merged from the arms of the match: it is true only if one of the arms computed the lower-edge relation;
            # every other arm (None) must be the literal `false` -- `None => true` would claim the edge without a comparison
            rels = [relation_on(x, True) for x in d[1] if not _is_c(x, 0)]
            if rels and all(r is not None and lo_rel(*r) for r in rels):
                lo.append((br, br.target(0 if neg else 1)))
        if d[0] == 'call' and d[1] == 'Option::is_some_and' and len(d[3]) == 2:
            cs, clo = d[3]
            okc = cs[0] == 'call' and cs[1] == 'u64::checked_sub' and len(cs[3]) == 2 and _pn_expected(cs[3][0]) and _pn_hwin(cs[3][1])
            okr = False
            if clo[0] == 'agg' and clo[1] == 'closure' and len(clo[3]) == 1 and _pn_cand(clo[3][0]):
                bodies = closures_of(F, ex, clo)
                rets = [x for b in bodies for _, x in ret_descs(F, b)]
                # the closure's only capture is the candidate: `capture <= argument`
                okr = len(bodies) == 1 and bool(rets) and all(_bin(x, 'Le') and x[2][0] == 'upvar' and x[3][0] == 'param' for x in rets)
            if okc and okr:
                lo.append((br, br.target(0 if neg else 1)))
    ctx.check(bool(lo), 'd', 'pn_expand_lower_edge', ex, ex.where(), 'expected.checked_sub(hwin).is_some_and(|x| candidate <= x)', 'the lower window edge is no longer `candidate <= expected - hwin`')
    ctx.check(bool(up), 'd', 'pn_expand_upper_edge', ex, ex.where(), 'candidate > expected + hwin', 'the upper window edge is no longer `candidate > expected + hwin`')
    ctx.check(bool(wn), 'd', 'pn_expand_no_underflow', ex, ex.where(), 'candidate > win', 'the `candidate > win` underflow guard changed')
    # corrections: +win exactly on the lower edge, -win exactly under (upper edge && no underflow), candidate otherwise
    dx = describer(F, ex)
    live = ex.live_blocks()
    kinds = []
    bad = []
    for i, j, pl, rv, line in ex.assigns():
        if i not in live or pl[0] != 0 or pl[1]:
            continue
        for x in flat(dx.rvalue(rv, i, j, 0)):
            if _comm(x, 'Add', _pn_cand, _pn_win):
                kinds.append('Add')
                if not only_via(ex, lo, i):
                    bad.append('`candidate + win` (line %d) is not confined to the lower-edge branch' % line)
            elif _bin(x, 'Sub') and _pn_cand(x[2]) and _pn_win(x[3]):
                kinds.append('Sub')
                if not (only_via(ex, up, i) and only_via(ex, wn, i)):
                    bad.append('`candidate - win` (line %d) is not confined to `candidate > expected + hwin && candidate > win`' % line)
            elif _pn_cand(x):
                kinds.append('plain')
                if only_via(ex, lo, i) or (only_via(ex, up, i) and only_via(ex, wn, i)):
                    bad.append('the uncorrected candidate (line %d) is returned on a window-edge branch' % line)
            else:
                kinds.append('other')
                bad.append('line %d returns %s' % (line, D.render(x)[:100]))
    kinds.sort()
    ctx.check(kinds == ['Add', 'Sub', 'plain'] and not bad, 'd', 'pn_expand_corrections', ex, ex.where(), 'candidate + win | candidate - win | candidate, each on its own branch',
              'expand returns %s%s' % (kinds, ('; ' + '; '.join(bad)) if bad else ''))


# RFC 9000 section 17.2, table 5: long packet type bits
LONG_TYPE_BITS = {'Initial': 0, 'Standard(ZeroRtt)': 1, 'Standard(Handshake)': 2, 'Retry': 3}


def _lht_key(x):
    """'Initial' | 'Retry' | 'Standard(<LongType variant>)' for a LongHeaderType aggregate descriptor"""
    if not (x[0] == 'agg' and x[1] == 'adt' and '::LongHeaderType::' in '::' + x[2]):
        return None
    v = x[2].split('::')[-1]
    if x[3]:
        inner = [y[2].split('::')[-1] if (y[0] == 'agg' and y[1] == 'adt' and '::LongType::' in '::' + y[2]) else '?' for y in flat(x[3][0])]
        return '%s(%s)' % (v, '|'.join(sorted(inner)))
    return v


def _variant_of_edge(F, br, val):
    """variant name selected by the edge `val` (None = otherwise) of a switch on an enum discriminant"""
    d = br.desc[1]
    if d[0] == 'param' and d[1] == 1:
        adt = F.adt('packet::LongHeaderType')
    elif d[0] == 'field' and d[2] == '0' and d[1][0] == 'variant' and d[1][2] == 'Standard' and d[1][1][0] == 'param' and d[1][1][1] == 1:
        adt = F.adt('packet::LongType')
    else:
        return None, None
    names = {int(v['discr']): v['name'] for v in adt['variants']}
    if val is not None:
        return adt, names.get(val)
    rest = [n for k, n in names.items() if k not in {v for v, _ in br.edges if v is not None}]
    return adt, (rest[0] if len(rest) == 1 else None)


def rule_e(ctx):
    F = ctx.facts
    fb = ctx.pfn('LongHeaderType::from_byte')
    type_bits = lambda d: all(evs(d, {1: {b}}) == {(b >> 4) & 3} for b in range(256))
    disp = [br for br in branches(F, fb) if len(br.edges) >= 4]
    # decode side extracts the two type bits: (b & 0x30) >> 4 (decided by evaluating the scrutinee for every byte)
    tdisp = [br for br in disp if type_bits(br.desc)]
    ctx.check(len(tdisp) == 1, 'e', 'long_type_decode_bits', fb, fb.where(), '(b & 0x30) >> 4', 'LongHeaderType::from_byte no longer dispatches on bits 4-5 of the first byte: %s' % [D.render(br.desc)[:80] for br in disp])
    # decode table: value of the type bits -> variant constructed on that edge (and only there)
    dec = {}
    dx = describer(F, fb)
    for br in (tdisp or disp)[:1]:
        reach = {t: fb.reachable_from(t) for _, t in br.edges}
        for v, t in br.edges:
            if v is None:
                continue
            own = set(reach[t])
            for t2, r2 in reach.items():
                if t2 != t:
                    own -= r2
            ks = set()
            for i, j, pl, rv, line in fb.assigns():
                if i in own and rv[0] == 'agg' and rv[1][0] == 'adt' and rv[1][1].endswith('::LongHeaderType'):
                    ks.add(_lht_key(dx.rvalue(rv, i, j, 0)))
            dec[v] = '|'.join(sorted(str(k) for k in ks)) if ks else None
    want_dec = {v: k for k, v in LONG_TYPE_BITS.items()}
    ctx.check(dec == want_dec, 'e', 'long_type_decode_table', fb, fb.where(), 'arms %s' % sorted(dec.items()),
              'LongHeaderType::from_byte arms %s differ from RFC 9000 table 5 %s (and from the encoder)' % (sorted(dec.items(), key=str), sorted(want_dec.items())))
    # encode table: variant selected by the discriminant edges that lead to a return value -> type bits of that value
    encs = [b for b in F.fns('<u8 as From>::from') if b.crate == 'quinn_proto' and b.kind == 'fn' and any('LongHeaderType' in x[0] for x in b.locals[1:2])]
    ctx.check(len(encs) == 1, 'e', 'long_type_encoder_found', encs[0] if encs else fb, (encs[0] if encs else fb).where(), 'From<LongHeaderType> for u8', 'cannot locate From<LongHeaderType> for u8')
    enc = {}
    problems = []
    for b in encs[:1]:
        dxe = describer(F, b)
        live = b.live_blocks()
        dbr = [br for br in branches(F, b) if br.desc[0] == 'discr']
        for i, j, pl, rv, line in b.assigns():
            if i not in live or pl[0] != 0 or pl[1]:
                continue
            vs = evs(dxe.rvalue(rv, i, j, 0))
            if vs is None or len(vs) != 1:
                problems.append('line %d: value not a constant' % line)
                continue
            val = next(iter(vs))
            # discriminant edges every path to this block takes
            outer = inner = None
            for br in dbr:
                for v, t in br.edges:
                    if only_via(b, [(br, t)], i) and [x for _, x in br.edges].count(t) == 1:
                        adt, name = _variant_of_edge(F, br, v)
                        if adt is None or name is None:
                            continue
                        if adt['path'].endswith('::LongHeaderType'):
                            outer = name
                        else:
                            inner = name
            if outer is None or (outer == 'Standard') != (inner is not None):
                problems.append('line %d: cannot tell which variant this arm encodes' % line)
                continue
            key = '%s(%s)' % (outer, inner) if inner else outer
            if key in enc and enc[key] != (val >> 4) & 3:
                problems.append('%s encoded twice' % key)
            enc[key] = (val >> 4) & 3
    ctx.check(enc == LONG_TYPE_BITS and not problems, 'e', 'long_type_encode_table', encs[0] if encs else fb, (encs[0] if encs else fb).where(), 'type bits %s << 4 (Initial = 0)' % sorted(enc.items()),
              'From<LongHeaderType> for u8 encodes %s, RFC 9000 table 5 (and from_byte) say %s; %s' % (sorted(enc.items()), sorted(LONG_TYPE_BITS.items()), '; '.join(problems)))


def _is_dgram_len(d):
    """length of the whole datagram held by the cursor: <buf>.get_ref().len()"""
    return d[0] == 'call' and d[1].rsplit('::', 1)[-1] == 'len' and len(d[3]) == 1 and d[3][0][0] == 'call' and d[3][0][1] == 'Cursor::get_ref'


def _is_packet_len(F, body, d):
    """header length + payload length when the header has a length field, else the datagram length:
    payload_len().map(|len| position + len).unwrap_or(dgram_len) | .map_or(dgram_len, |len| ..) | match form"""
    def hdr_plus_len(clo):
        if not (clo[0] == 'agg' and clo[1] == 'closure'):
            return False
        bodies = closures_of(F, body, clo)
        rets = [x for b in bodies for _, x in ret_descs(F, b)]
        return len(bodies) == 1 and bool(rets) and all(
            _comm(x, 'Add', lambda y: y[0] == 'call' and y[1] == 'Cursor::position' and len(y[3]) == 1 and y[3][0][0] == 'upvar', lambda y: y[0] == 'param') for x in rets)
    plen = lambda x: x[0] == 'call' and x[1] == 'ProtectedHeader::payload_len'
    if d[0] == 'call' and d[1] == 'Option::unwrap_or' and len(d[3]) == 2:
        m, dflt = d[3]
        return _is_dgram_len(dflt) and m[0] == 'call' and m[1] == 'Option::map' and len(m[3]) == 2 and plen(m[3][0]) and hdr_plus_len(m[3][1])
    if d[0] == 'call' and d[1] == 'Option::map_or' and len(d[3]) == 3:
        return plen(d[3][0]) and _is_dgram_len(d[3][1]) and hdr_plus_len(d[3][2])
    if d[0] == 'phi' and len(d[1]) == 2:
        some = lambda y: y[0] == 'field' and y[2] == '0' and y[1][0] == 'variant' and y[1][2] == 'Some' and plen(y[1][1])
        pos = lambda y: y[0] == 'call' and y[1] == 'Cursor::position'
        return any(_is_dgram_len(x) for x in d[1]) and any(_comm(x, 'Add', pos, some) for x in d[1])
    return False


def rule_f(ctx):
    F = ctx.facts
    pd = ctx.pfn('PartialDecode::new')
    so = pd.calls_to('BytesMut::split_off')
    ctx.floor('f', 'coalesced_split_sites', len(so), 1)
    pkt = lambda d: _is_packet_len(F, pd, d)
    for c in so:
        a = arg_desc(F, c, 1)
        ctx.check(pkt(a), 'f', 'split_at_header_plus_length', pd, c.where(), 'split_off(payload_len.map(|len| position + len).unwrap_or(dgram_len))', 'coalesced packets are not split at position + len: ' + D.render(a)[:160])
    # truncated length: on every edge where dgram_len < packet_len holds, every path ends in InvalidHeader and no split happens
    viol = rel_edges(F, pd, lambda o, a, b: o == 'Lt' and _is_dgram_len(a) and pkt(b))
    for br in branches(F, pd):
        d = br.desc
        if d[0] == 'discr' and d[1][0] == 'call' and d[1][1].rsplit('::', 1)[-1] == 'cmp' and 'Ord' in d[1][1] and len(d[1][3]) == 2:
            x, y = d[1][3]
            if _is_dgram_len(x) and pkt(y):
                viol.append((br, br.target(-1 if any(v == -1 for v, _ in br.edges) else 255)))   # Ordering::Less (i8 -1, printed as u8)
            elif pkt(x) and _is_dgram_len(y):
                viol.append((br, br.target(1)))    # Ordering::Greater
    eff = effect_blocks(ctx, pd, variant=('packet::PacketDecodeError', 'InvalidHeader'))
    bad = []
    for br, tgt in viol:
        p = path_avoiding(pd, [tgt], set(pd.return_blocks()) | {c.bb for c in so}, eff) if eff else [tgt]
        if p is not None:
            bad.append('%s: %s' % (br.where(), fmt_path(pd, p)))
    ctx.check(bool(viol) and not bad, 'f', 'truncated_packet_rejected', pd, pd.where(), 'dgram_len < packet_len always ends in PacketDecodeError::InvalidHeader (%d edge(s))' % len(viol),
              ('when the encoded length exceeds the datagram a path avoids PacketDecodeError::InvalidHeader: ' + '; '.join(bad)) if viol else 'PartialDecode::new no longer compares the datagram length with the encoded packet length')


def rule_a_scan(ctx):
    """consumed-count idiom of scan_ack_blocks (discharges the split_to in Iter::try_next): the minuend `remaining()` is
    sampled before ANY other use of the buffer and the subtrahend `remaining()` after the last one"""
    F = ctx.facts
    sc = ctx.pfn('frame::scan_ack_blocks')
    live = sc.live_blocks()
    is_rem = lambda x: x[0] == 'call' and D._trait_form(x[1]).endswith('Buf::remaining') and len(x[3]) == 1 and x[3][0][0] == 'param' and len(x) > 4
    oks = [y for _, x in ret_descs(F, sc) for y in flat(x) if y[0] == 'agg' and y[2].endswith('Result::Ok')]
    why = []
    if not oks:
        why.append('no Ok(..) return')
    for x in oks:
        v = x[3][0] if x[3] else ('const', 'other', '', '')
        if not (_bin(v, 'Sub') and is_rem(v[2]) and is_rem(v[3]) and v[2][3][0] == v[3][3][0]):
            why.append('returns Ok(%s), not a difference of remaining() of the scanned buffer' % D.render(v)[:100])
            continue
        buf, first, last = v[2][3][0], v[2][4], v[3][4]
        for c in sc.calls():
            if c.bb not in live or c.bb in (first, last):
                continue
            if any(arg_desc(F, c, k) == buf for k in range(len(c.args))):
                if not sc.dominates(first, c.bb):
                    why.append('%s at line %d can run before the total length is sampled' % (short(c.f), c.line))
                if c.bb in sc.reachable_from(last):
                    why.append('%s at line %d can run after the final remaining()' % (short(c.f), c.line))
        if not sc.dominates(first, last):
            why.append('the final remaining() is not dominated by the initial one')
    ctx.check(not why, 'a', 'scan_returns_consumed_count', sc, sc.where(), 'Ok(remaining() at entry - remaining() at exit), no use of the buffer outside the two samples', 'scan_ack_blocks does not return the consumed byte count: ' + '; '.join(why))


# --------------------------------------------------------------------------
# (g) address-validation tokens: the address bytes written are the bytes of the value given
# --------------------------------------------------------------------------

def _is_param(d, k=None):
    return d[0] == 'param' and (k is None or d[1] == k)


def _is_path(d):
    """the caller's own datum, untransformed: a parameter / captured variable or a field / variant projection of one"""
    while d[0] in ('field', 'variant'):
        d = d[1]
    return d[0] in ('param', 'upvar')


def _unwrapped(d):
    """the value inside `x?` / the Some arm: field and variant projections stripped"""
    while d[0] in ('field', 'variant'):
        d = d[1]
    return d


def _lastseg(name):
    return D._trait_form(name).rsplit('::', 1)[-1]


def _own_blocks(body, br):
    """{edge value: blocks reachable over that edge of the switch and over no other edge}"""
    reach = {t: body.reachable_from(t) for _, t in br.edges}
    tgts = [t for _, t in br.edges]
    out = {}
    for v, t in br.edges:
        if tgts.count(t) != 1:
            continue
        own = set(reach[t])
        for t2, r2 in reach.items():
            if t2 != t:
                own -= r2
        out[v] = own
    return out


def _ip_ctor(x):
    """'V4' / 'V6' when x constructs that IpAddr variant (constructor function value or aggregate)"""
    if x[0] == 'const' and x[1] == 'fn' and re.search(r'(^|::)IpAddr::V[46]$', str(x[2])):
        return x[2].rsplit('::', 1)[-1]
    if x[0] == 'agg' and x[1] == 'adt' and re.search(r'(^|::)IpAddr::V[46]$', str(x[2])):
        return x[2].rsplit('::', 1)[-1]
    return None


def _whole(d):
    """d with whole-value views stripped: `x[..]` (index by RangeFull) and `x.as_slice()` / `x.as_ref()` of an array are
    every byte of x in the same order (a RangeTo / Range / RangeFrom reslice is NOT stripped: it may drop bytes)"""
    while d[0] == 'call' and d[3]:
        nm = _lastseg(d[1])
        if nm == 'index' and len(d[3]) == 2 and d[3][1][0] == 'agg' and str(d[3][1][2]).endswith('RangeFull') and not d[3][1][3]:
            d = d[3][0]
        elif nm in ('as_slice', 'as_ref') and len(d[3]) == 1 and d[3][0][0] == 'call' and _lastseg(d[3][0][1]) == 'octets':
            d = d[3][0]
        else:
            break
    return d


def _plain_read(d, buf):
    """d is what a read of the buffer parameter returned, untransformed: the only calls are reads of `buf` and Result::ok"""
    n = 0
    for x in walk(d):
        if x[0] == 'call':
            nm = _lastseg(x[1])
            if nm == 'ok':
                continue
            if (nm == 'get' or nm.startswith('get_')) and x[3] and _is_param(x[3][0], buf):
                n += 1
                continue
            return False
        if x[0] == 'phi':
            return False
    return n == 1


def rule_g(ctx):
    F = ctx.facts
    enc = ctx.pfn('token::encode_ip')
    dec = ctx.pfn('token::decode_ip')
    ipk = [k for k in range(1, enc.argc + 1) if enc.locals[k][0].endswith('IpAddr')]
    ctx.check(len(ipk) == 1 and enc.argc == 2, 'g', 'token_ip_encoder_found', enc, enc.where(), 'encode_ip(buf, ip: IpAddr)', 'token::encode_ip no longer takes a buffer and one IpAddr')
    if len(ipk) != 1 or enc.argc != 2:
        return
    ip = ipk[0]
    # the variant dispatch is on the address given, not on a value derived from it
    dep = [br for br in branches(F, enc) if _contains(br.desc, lambda x: _is_param(x, ip))]
    onv = [br for br in dep if br.desc[0] == 'discr' and _is_param(br.desc[1], ip)]
    other = [br for br in dep if br not in onv]
    ctx.check(len(onv) >= 1 and not other, 'g', 'token_ip_dispatch_on_value', enc, (other or onv or [enc])[0].where(), 'match on the IpAddr parameter itself',
              'token::encode_ip does not dispatch on the address it was given but on %s: the token holds a different address than the one encoded'
              % (' | '.join(D.render(br.desc)[:100] for br in other) or 'nothing'))
    # per variant arm: one constant tag byte, then the bytes of that variant's own payload
    enc_tab = {}
    enc_sites = {}
    why = []
    payload = lambda x: x[0] == 'field' and x[2] == '0' and x[1][0] == 'variant' and _is_param(x[1][1], ip)
    for br in onv:
        for v, own in sorted(_own_blocks(enc, br).items(), key=str):
            tags, pay = [], []
            for c in enc.calls():
                if c.bb not in own:
                    continue
                args = [arg_desc(F, c, k) for k in range(len(c.args))]
                if not any(_is_param(a) and a[1] != ip for a in args):
                    continue
                for a in args:
                    if _is_param(a) and a[1] != ip:
                        continue
                    vs = evs(a)
                    a = _whole(a)
                    if vs is not None and len(vs) == 1:
                        tags.append((next(iter(vs)), c))
                    elif payload(a) or (a[0] == 'call' and _lastseg(a[1]) == 'octets' and len(a[3]) == 1 and payload(a[3][0])):
                        pay.append(((a if payload(a) else a[3][0])[1][2], c))
                    else:
                        why.append('%s writes %s, which is not the address bytes of the value given' % (c.where(), D.render(a)[:100]))
            if not tags and not pay:
                continue
            names = {n for n, _ in pay}
            if len(tags) != 1 or len(names) != 1:
                why.append('an arm writes %d tag byte(s) and the payload of %s' % (len(tags), sorted(names) or 'no variant'))
                continue
            if not all(enc.dominates(tags[0][1].bb, c.bb) and tags[0][1].bb != c.bb for _, c in pay):
                why.append('%s: the tag byte is not written before the address bytes' % tags[0][1].where())
            name = next(iter(names))
            # (with `if let .. else if let ..` the arm of the inner switch is also seen over the outer `otherwise` edge: same site)
            if name in enc_sites and enc_sites[name] != tags[0][1].bb:
                why.append('variant %s encoded twice' % name)
            enc_sites[name] = tags[0][1].bb
            enc_tab[name] = tags[0][0]
    ctx.check(set(enc_tab) == {'V4', 'V6'} and not why, 'g', 'token_ip_payload_of_own_variant', enc, enc.where(), 'tag byte then octets of the matched variant: %s' % sorted(enc_tab.items()),
              'token::encode_ip arms %s: %s' % (sorted(enc_tab.items()), '; '.join(why) or 'not exactly the variants V4 and V6'))
    # decode table: tag byte -> variant constructed on that edge; the constructed address is the bytes read, untransformed
    bufs = [k for k in range(1, dec.argc + 1)]
    dsw = [br for br in branches(F, dec) if br.desc[0] != 'discr' and len([v for v, _ in br.edges if v is not None]) >= 2 and bufs and _plain_read(br.desc, bufs[0])]
    ctx.check(len(dsw) == 1 and dec.argc == 1, 'g', 'token_ip_decoder_dispatch', dec, dec.where(), 'match on the tag byte read from the buffer', 'cannot locate the tag dispatch of token::decode_ip')
    dec_tab = {}
    dwhy = []
    dxd = describer(F, dec)
    for br in dsw[:1]:
        for v, own in _own_blocks(dec, br).items():
            ks = set()
            for c in dec.calls():
                if c.bb in own:
                    for k in range(len(c.args)):
                        ks |= {_ip_ctor(x) for x in walk(arg_desc(F, c, k))}
            for i, j, pl, rv, line in dec.assigns():
                if i in own:
                    ks |= {_ip_ctor(x) for x in walk(dxd.rvalue(rv, i, j, 0))}
            ks.discard(None)
            if v is None:
                if ks:
                    dwhy.append('an unknown tag byte yields an address')
            elif len(ks) != 1:
                dwhy.append('tag %d constructs %s' % (v, sorted(ks) or 'nothing'))
            else:
                dec_tab[v] = next(iter(ks))
    for _, r in ret_descs(F, dec):
        for x in flat(r):
            if x[0] == 'agg' and x[2].endswith('Option::None'):
                continue
            if x[0] == 'call' and _lastseg(x[1]) == 'from_residual':
                continue
            if x[0] == 'call' and _lastseg(x[1]) == 'map' and len(x[3]) == 2 and _ip_ctor(x[3][1]) and _plain_read(x[3][0], 1):
                continue
            if x[0] == 'agg' and x[2].endswith('Option::Some') and len(x[3]) == 1 and _ip_ctor(x[3][0]) and x[3][0][0] == 'agg' and len(x[3][0][3]) == 1 and _plain_read(x[3][0][3][0], 1):
                continue
            dwhy.append('returns %s, not IpAddr::Vn(<the bytes read>)' % D.render(x)[:120])
    inv = {t: n for n, t in enc_tab.items()}
    ctx.check(bool(dec_tab) and dec_tab == inv and not dwhy, 'g', 'token_ip_tag_tables_inverse', dec, dec.where(), 'decode %s = inverse of encode %s' % (sorted(dec_tab.items()), sorted(enc_tab.items())),
              'token::decode_ip arms %s are not the inverse of token::encode_ip %s%s' % (sorted(dec_tab.items()), sorted(enc_tab.items()), ('; ' + '; '.join(dwhy)) if dwhy else ''))
    # every caller hands over the stored address untransformed (SocketAddr::ip is the only projection)
    ea = ctx.pfn('token::encode_addr')
    da = ctx.pfn('token::decode_addr')
    n = 0
    bad = []
    for c in F.all_calls('quinn_proto'):
        if c.is_('token::encode_ip') and len(c.args) == 2:
            n += 1
            a = arg_desc(F, c, ip - 1)
            if not (_is_path(a) or (a[0] == 'call' and a[1] == 'SocketAddr::ip' and len(a[3]) == 1 and _is_path(a[3][0]))):
                bad.append('%s passes %s to encode_ip' % (c.where(), D.render(a)[:100]))
        elif c.is_('token::encode_addr') and len(c.args) == 2:
            n += 1
            a = [arg_desc(F, c, k) for k in range(2)]
            a = [x for x in a if not (x[0] == 'call' and _lastseg(x[1]) == 'new')][-1]
            if not _is_path(a):
                bad.append('%s passes %s to encode_addr' % (c.where(), D.render(a)[:100]))
    ctx.floor('g', 'token_address_encode_sites', n, 3)
    # encode_addr: ip then port of the same address ; decode_addr: SocketAddr::new(<decode_ip>, <port read>) in that order
    ak = [k for k in range(1, ea.argc + 1) if ea.locals[k][0].endswith('SocketAddr')]
    parts = []
    for c in ea.calls():
        args = [arg_desc(F, c, k) for k in range(len(c.args))]
        if any(_is_param(a) and a[1] not in ak for a in args):
            parts += [(a, c) for a in args if not (_is_param(a) and a[1] not in ak)]
    shape = [(_lastseg(a[1]) if a[0] == 'call' and len(a[3]) == 1 and _is_param(a[3][0]) and a[3][0][1] in ak else D.render(a)[:60]) for a, _ in parts]
    if not (len(ak) == 1 and sorted(shape) == ['ip', 'port'] and ea.dominates(parts[shape.index('ip')][1].bb, parts[shape.index('port')][1].bb)):
        bad.append('encode_addr writes %s instead of address.ip() then address.port()' % shape)
    okd = False
    for _, r in ret_descs(F, da):
        for x in flat(r):
            if x[0] == 'agg' and x[2].endswith('Option::Some') and len(x[3]) == 1:
                sa = x[3][0]
                a, b = (sa[3] + (None, None))[:2] if sa[0] == 'call' and sa[1] == 'SocketAddr::new' else (None, None)
                ua, ub = (_unwrapped(a), _unwrapped(b)) if a and b else (None, None)
                if ua and ua[0] == 'call' and ua[1] == 'token::decode_ip' and _plain_read(b, 1) and len(ua) > 4 and all(da.dominates(ua[4], y[4]) for y in walk(b) if y[0] == 'call' and _lastseg(y[1]) != 'ok' and len(y) > 4):
                    okd = True
                else:
                    bad.append('decode_addr returns %s instead of SocketAddr::new(decode_ip(buf)?, <port read>)' % D.render(sa)[:120])
    if not okd:
        bad.append('decode_addr no longer returns Some(SocketAddr::new(decode_ip(buf)?, <port read>))')
    # Token::decode stores the decoded address as decoded
    td = ctx.pfn('Token::decode')
    stored = {}
    for _, r in ret_descs(F, td):
        for x in walk(r):
            if x[0] == 'agg' and x[1] == 'adt' and '::TokenPayload::' in '::' + x[2] and len(x) > 4:
                for nm, val in zip(x[4], x[3]):
                    if nm in ('address', 'ip'):
                        u = _unwrapped(val)
                        stored[nm] = u[1] if u[0] == 'call' else D.render(val)[:80]
    if stored != {'address': 'token::decode_addr', 'ip': 'token::decode_ip'}:
        bad.append('Token::decode stores %s' % sorted(stored.items()))
    ctx.check(not bad, 'g', 'token_address_passed_unchanged', ea, ea.where(), 'callers pass the stored address (or its .ip()) as is; ip then port; Token::decode stores decode_addr / decode_ip results as is',
              'a token address is transformed between the payload and the wire: ' + '; '.join(bad))


# --------------------------------------------------------------------------
# (h) preferred_address: a family is absent <=> its own (ip, port) pair is the all-zero placeholder that write() emits
# --------------------------------------------------------------------------

def _bconst(d):
    if d[0] != 'const':
        return None
    return {'0': False, 'false': False, '1': True, 'true': True}.get(str(d[2]).split('_')[0])


def _and3(a, b):
    return False if (a is False or b is False) else (True if (a is True and b is True) else None)


def _not3(a):
    return None if a is None else (not a)


def _truth(d, val):
    """three-valued value of a boolean descriptor when the atoms ('unspec', X) [X is the unspecified address] and
    ('zero', X) [X == 0] listed in `val` have the given truth value and every other atom is free"""
    t = d[0]
    if t == 'const':
        return _bconst(d)
    if t == 'un' and d[1] == 'Not':
        return _not3(_truth(d[2], val))
    if t == 'bin' and d[1] == 'BitAnd':
        return _and3(_truth(d[2], val), _truth(d[3], val))
    if t == 'bin' and d[1] == 'BitOr':
        return _not3(_and3(_not3(_truth(d[2], val)), _not3(_truth(d[3], val))))
    if t == 'bin' and d[1] in ('Eq', 'Ne'):
        for a, b in ((d[2], d[3]), (d[3], d[2])):
            if _is_c(a, 0) and not a[3]:
                r = val.get(('zero', b))
                return r if d[1] == 'Eq' else _not3(r)
            if a[0] == 'const' and str(a[3]).endswith('::UNSPECIFIED'):
                r = val.get(('unspec', b))
                return r if d[1] == 'Eq' else _not3(r)
        return None
    if t == 'bin' and d[1] == 'Lt':
        if _is_c(d[2], 0):          # 0 < X
            return _not3(val.get(('zero', d[3])))
        if _is_c(d[3], 1):          # X < 1
            return val.get(('zero', d[2]))
        return None
    if t == 'bin' and d[1] == 'Le':
        if _is_c(d[3], 0):          # X <= 0
            return val.get(('zero', d[2]))
        if _is_c(d[2], 1):          # 1 <= X
            return _not3(val.get(('zero', d[3])))
        return None
    if t == 'call':
        nm = _lastseg(d[1])
        if nm == 'is_unspecified' and len(d[3]) == 1:
            return val.get(('unspec', d[3][0]))
        if nm in ('eq', 'ne') and len(d[3]) == 2:
            for a, b in ((d[3][0], d[3][1]), (d[3][1], d[3][0])):
                if a[0] == 'const' and str(a[3]).endswith('::UNSPECIFIED'):
                    r = val.get(('unspec', b))
                    return r if nm == 'eq' else _not3(r)
        return None
    if t == 'phi':
        vs = {_truth(x, val) for x in d[1]}
        return next(iter(vs)) if len(vs) == 1 else None
    return None


def decide(F, body, val, opt_ty=None, obs_adt=None):
    """walk the body from the entry with the atoms of `val` fixed and everything else free.  Boolean locals assigned on the
    way carry their value to later branches, so short-circuit and strict conjunctions, negated forms, named booleans and
    `match` on the pair are all followed by what they compute, not by how they are written.  Locals whose type matches
    `opt_ty` carry 'none' / 'some' (the Option variant last stored, copies followed).  Returns (blocks reached,
    {field name: set of 'none' | 'some' | '?'} seen in the operands of every reached construction of `obs_adt`)"""
    dx = describer(F, body)
    brs = {br.bb: br for br in branches(F, body)}
    plain = lambda o: o[0] in ('c', 'm') and not o[1][1]
    watched = lambda l: opt_ty is not None and re.search(opt_ty, body.locals[l][0]) is not None
    seen, out, obs = set(), set(), {}
    stack = [(0, frozenset())]
    while stack:
        bb, env = stack.pop()
        if (bb, env) in seen or body.blocks[bb]['c']:
            continue
        seen.add((bb, env))
        out.add(bb)
        e = dict(env)
        blk = body.blocks[bb]

        def op(o, j):
            if plain(o) and o[1][0] in e:
                return e[o[1][0]]
            return _truth(dx.operand(o, bb, j), val)
        for j, s in enumerate(blk['s']):
            if s[0] != '=':
                continue
            dst, rv = s[1], s[2]
            if obs_adt and rv[0] == 'agg' and rv[1][0] == 'adt' and rv[1][1].endswith(obs_adt):
                for nm, o in zip(rv[1][3], rv[2]):
                    obs.setdefault(nm, set()).add(e.get(o[1][0], '?') if plain(o) else '?')
            if dst[1]:
                e.pop(dst[0], None)
                continue
            v = None
            if rv[0] == 'use' and plain(rv[1]) and rv[1][1][0] in e:
                v = e[rv[1][1][0]]
            elif body.locals[dst[0]][0] == 'bool':
                if rv[0] == 'use':
                    v = op(rv[1], j)
                elif rv[0] == 'un' and rv[1] == 'Not':
                    v = _not3(op(rv[2], j))
                elif rv[0] == 'bin' and rv[1] == 'BitAnd':
                    v = _and3(op(rv[2], j), op(rv[3], j))
                elif rv[0] == 'bin' and rv[1] == 'BitOr':
                    v = _not3(_and3(_not3(op(rv[2], j)), _not3(op(rv[3], j))))
                else:
                    v = _truth(dx.rvalue(rv, bb, j, 0), val)
            elif watched(dst[0]) and rv[0] == 'agg' and rv[1][0] == 'adt' and rv[1][1].endswith('::Option'):
                v = 'none' if rv[1][2] == 'None' else 'some'
            if v is None:
                e.pop(dst[0], None)
            else:
                e[dst[0]] = v
        t = blk['t']
        succ = list(body.succ[bb])
        if t[0] == 'call' and isinstance(t[1], dict) and t[1].get('dst'):
            e.pop(t[1]['dst'][0], None)
        br = brs.get(bb)
        if t[0] == 'switch' and br is not None:
            # a boolean scrutinee (a local carried in `e`, or any place -- e.g. a field of the matched pair -- whose value
            # the atoms decide); otherwise an integer scrutinee with a `0` arm
            v = e[t[1][1][0]] if (plain(t[1]) and t[1][1][0] in e) else _truth(br.desc, val)
            if v is True or v is False:
                succ = [br.target(1 if v else 0)]
            else:
                z = val.get(('zero', br.desc))
                if z is True:
                    succ = [br.target(0)]
                elif z is False and any(v_ == 0 for v_, _ in br.edges):
                    succ = [tg for v_, tg in br.edges if v_ != 0]
        ne = frozenset(e.items())
        for s_ in succ:
            stack.append((s_, ne))
    return out, obs


def _split_on_option(F, body, call, k, field):
    """(value of argument k of `call` on the paths over the None edge, ... over the Some edge) of the switch(es) of `body` on the
    discriminant of the Option `self.<field>`; None when no such switch dominates the call.  Each value is computed on a copy
    of the body in which those switches only take that edge, so a phi of the two arms is resolved per arm."""
    from engine.facts import Body
    sw = [br for br in branches(F, body) if br.desc[0] == 'discr' and _self_field(br.desc[1], field) and br.bb != call.bb and body.dominates(br.bb, call.bb)
          and {v for v, _ in br.edges if v is not None} <= {0, 1} and br.target(0) != br.target(1)]
    allsw = [br for br in branches(F, body) if br.desc[0] == 'discr' and _self_field(br.desc[1], field)]
    if not sw:
        return None
    out = []
    for val in (0, 1):      # Option: None = 0, Some = 1
        d = dict(body.d)
        blocks = list(d['blocks'])
        for br in allsw:
            blk = dict(blocks[br.bb])
            blk['t'] = ['goto', br.target(val)]
            blocks[br.bb] = blk
        d['blocks'] = blocks
        reach = Body(body.crate, d).reachable_from(0)
        if call.bb not in reach:
            return None
        # the arm not taken no longer flows into the join (reaching definitions are searched backwards over predecessors)
        for i in range(len(blocks)):
            if i not in reach and not blocks[i]['c']:
                blk = dict(blocks[i])
                blk['t'] = ['unreach']
                blocks[i] = blk
        nb = Body(body.crate, d)
        out.append(D.Describer(F, nb).operand(call.args[k], call.bb, len(nb.blocks[call.bb]['s'])))
    return out[0], out[1]


def _dom_pos(body, sites):
    """position of every site (a block) in the dominance chain of `sites`; None when they are not totally ordered"""
    pos = {}
    for s in sites:
        pos[s] = sum(1 for o in sites if o != s and body.dominates(o, s))
    return pos if sorted(pos.values()) == list(range(len(sites))) else None


def rule_h(ctx):
    F = ctx.facts
    rd = ctx.pfn('PreferredAddress::read')
    wr = ctx.pfn('PreferredAddress::write')
    dx = describer(F, rd)
    live = rd.live_blocks()
    fams = {}
    for i, j, pl, rv, line in rd.assigns():
        if i not in live or pl[1] or rv[0] != 'agg' or rv[1][0] != 'adt' or not rv[1][1].endswith('::Option'):
            continue
        m = re.search(r'Option<[\w:]*SocketAddr(V[46])>$', rd.locals[pl[0]][0])
        if not m:
            continue
        f = fams.setdefault(m.group(1), {'none': set(), 'some': set(), 'pair': set()})
        if rv[1][2] == 'None':
            f['none'].add(i)
        else:
            f['some'].add(i)
            x = dx.rvalue(rv, i, j, 0)
            sa = x[3][0] if x[0] == 'agg' and len(x[3]) == 1 else None
            if sa and sa[0] == 'call' and _lastseg(sa[1]) == 'new' and ('SocketAddr' + m.group(1)) in sa[1] and len(sa[3]) >= 2:
                f['pair'].add((sa[3][0], sa[3][1]))
            else:
                f['pair'].add(None)
    pairs = {}
    for fam in ('V4', 'V6'):
        f = fams.get(fam)
        inst = 'preferred_address_absent_iff_placeholder[%s]' % fam
        if not f or not f['none'] or not f['some'] or len(f['pair']) != 1 or None in f['pair']:
            ctx.bad('h', inst, rd, rd.where(), 'cannot locate `None` / `Some(SocketAddr%s::new(ip, port, ..))` for the %s half of PreferredAddress::read' % (fam, fam))
            continue
        ipd, pod = next(iter(f['pair']))
        pairs[fam] = (ipd, pod)
        why = []
        field = 'address_' + fam.lower()
        for u in (True, False):
            for z in (True, False):
                _, obs = decide(F, rd, {('unspec', ipd): u, ('zero', pod): z}, opt_ty=r'Option<[\w:]*SocketAddrV[46]>$', obs_adt='::PreferredAddress')
                got = obs.get(field, set())
                case = 'ip %s unspecified, port %s 0' % ('is' if u else 'is not', '==' if z else '!=')
                if got != ({'none'} if (u and z) else {'some'}):
                    why.append('%s: %s is %s' % (case, field, ' or '.join(sorted({'none': 'None', 'some': 'Some(..)', '?': 'not decidable'}[g] for g in got)) or 'never stored'))
        ctx.check(not why, 'h', inst, rd, rd.where(), 'None <=> %s is unspecified && %s == 0, for the operands of SocketAddr%s::new' % (D.render(ipd)[:40], D.render(pod)[:40], fam),
                  'the %s half of preferred_address is not absent exactly when ITS OWN ip is unspecified and ITS OWN port is 0 (write() emits that placeholder for None): %s' % (fam, '; '.join(why)))
    # field order: position of each read on the buffer = position of the write that emits that half
    NOT_CONSUMING = ('remaining', 'has_remaining', 'chunk', 'len', 'is_empty')
    rsites = [c for c in rd.calls() if c.bb in live and c.args and _is_param(arg_desc(F, c, 0)) and _lastseg(short(c.f)) not in NOT_CONSUMING]
    wsites = [c for c in wr.calls() if c.bb in wr.live_blocks() and c.args and _is_param(arg_desc(F, c, 0)) and arg_desc(F, c, 0)[1] != 1]
    rpos = _dom_pos(rd, [c.bb for c in rsites])
    wpos = _dom_pos(wr, [c.bb for c in wsites])
    ctx.check(rpos is not None and wpos is not None and len(rsites) >= 4 and len(wsites) >= 4, 'h', 'preferred_address_layout_found', rd, rd.where(), '%d reads / %d writes in a fixed order' % (len(rsites), len(wsites)),
              'cannot order the buffer reads of PreferredAddress::read / writes of PreferredAddress::write')
    if rpos is None or wpos is None:
        return
    wfam = {}
    wargs = {}
    wsite = {}
    for c in wsites:
        for k in range(1, len(c.args)):
            a = arg_desc(F, c, k)
            for x in walk(a):
                if x[0] == 'field' and x[2] in ('address_v4', 'address_v6') and _is_param(x[1], 1):
                    wfam.setdefault('V' + x[2][-1], set()).add(wpos[c.bb])
                    wargs[wpos[c.bb]] = a
                    wsite[wpos[c.bb]] = (c, k)
    why = []
    for fam, (ipd, pod) in sorted(pairs.items()):
        got = []
        for d in (ipd, pod):
            reads = [x for x in walk(d) if x[0] == 'call' and len(x) > 4 and x[3] and _is_param(x[3][0]) and x[4] in rpos and _lastseg(x[1]) not in NOT_CONSUMING]
            got.append(rpos[reads[0][4]] if len(reads) == 1 and _plain_read(d, reads[0][3][0][1]) else None)
        want = sorted(wfam.get(fam, ()))
        if got != want or len(want) != 2:
            why.append('SocketAddr%s::new takes reads #%s of the buffer, write() emits address_%s at #%s' % (fam, got, fam.lower(), want))
    ctx.check(len(pairs) == 2 and not why, 'h', 'preferred_address_field_order', rd, rd.where(), 'ip, port of each family are read at the positions where write() emits them: %s' % sorted((k, sorted(v)) for k, v in wfam.items()),
              'PreferredAddress::read pairs values that write() does not emit together: ' + '; '.join(why))
    # the placeholder emitted for an absent half is (UNSPECIFIED, 0), i.e. what read() tests; the present half emits ip then port
    why = []
    n = 0
    for fam in ('V4', 'V6'):
        for idx, p in enumerate(sorted(wfam.get(fam, ()))[:2]):
            a = wargs[p]
            dflt = clo = None
            if a[0] == 'call' and a[1] == 'Option::map_or' and len(a[3]) == 3:
                dflt, clo = a[3][1], a[3][2]
            elif a[0] == 'call' and a[1] == 'Option::unwrap_or' and len(a[3]) == 2 and a[3][0][0] == 'call' and a[3][0][1] == 'Option::map' and len(a[3][0][3]) == 2:
                dflt, clo = a[3][1], a[3][0][3][1]
            proj = None
            if dflt is None:
                # the Option taken apart by hand (`match self.address_vN { Some(a) => .., None => .. }`, `if let`, a default
                # overwritten under `if let Some`): the value written is split by the discriminant edge -- what reaches the
                # write over the None edge is the placeholder, what reaches it over the Some edge must be ip / port of the payload
                sp = _split_on_option(F, wr, wsite[p][0], wsite[p][1], 'address_' + fam.lower())
                if sp is not None:
                    dflt, on_some = sp
                    is_pay = lambda y: y[0] == 'field' and y[2] == '0' and y[1][0] == 'variant' and y[1][2] == 'Some' and _self_field(y[1][1], 'address_' + fam.lower())
                    proj = {_lastseg(on_some[1]) if on_some[0] == 'call' and len(on_some[3]) == 1 and is_pay(on_some[3][0]) else '?'}
            if dflt is None:
                why.append('write #%d: cannot tell the value emitted for an absent address_%s: %s' % (p, fam.lower(), D.render(a)[:80]))
                continue
            n += 1
            if proj is None:
                rets = [x for b in closures_of(F, wr, clo) for _, x in ret_descs(F, b)] if clo[0] == 'agg' else []
                proj = {_lastseg(x[1]) if x[0] == 'call' and len(x[3]) == 1 and x[3][0][0] == 'param' else '?' for x in rets}
            if idx == 0:
                okp = dflt[0] == 'const' and str(dflt[3]).endswith('Ipv%sAddr::UNSPECIFIED' % fam[1]) and proj == {'ip'}
            else:
                okp = _is_c(dflt, 0) and not dflt[3] and proj == {'port'}
            if not okp:
                why.append('write #%d emits %s(default %s) for address_%s; read() expects %s' % (p, sorted(proj), D.render(dflt)[:40], fam.lower(), 'ip or UNSPECIFIED' if idx == 0 else 'port or 0'))
    ctx.check(n == 4 and not why, 'h', 'preferred_address_placeholder_written', wr, wr.where(), 'absent half is written as (UNSPECIFIED, 0), present half as (ip, port)',
              'PreferredAddress::write does not emit the placeholder that read() maps back to None: ' + ('; '.join(why) or '%d of 4 writes recognised' % n))


# --------------------------------------------------------------------------
# (i) STREAM frame boundaries: OFF / LEN / FIN bits <=> fields on both sides; a frame written without a length field
#     is the last thing in its room (the decoder takes every remaining byte as stream data)
# --------------------------------------------------------------------------

def _nobb(d):
    """descriptor with call-site blocks erased: the same expression evaluated at two sites compares equal"""
    if not isinstance(d, tuple):
        return d
    if d and d[0] == 'call' and len(d) > 4:
        return ('call', d[1], d[2], tuple(_nobb(x) for x in d[3]))
    if d and d[0] == 'bin' and len(d) > 4:
        return ('bin', d[1], _nobb(d[2]), _nobb(d[3]))
    return tuple(_nobb(x) for x in d)


class _Relabel:
    """a Ctx that records under another rule letter (a rule shared with another property keeps its instance names)"""

    def __init__(self, ctx, rule):
        self._c, self._r = ctx, rule

    def __getattr__(self, n):
        return getattr(self._c, n)

    def ok(self, rule, *a, **k):
        return self._c.ok(self._r, *a, **k)

    def bad(self, rule, *a, **k):
        return self._c.bad(self._r, *a, **k)

    def check(self, cond, rule, *a, **k):
        return self._c.check(cond, self._r, *a, **k)

    def floor(self, rule, *a, **k):
        return self._c.floor(self._r, *a, **k)

    def info(self, rule, *a, **k):
        return self._c.info(self._r, *a, **k)


_CMP = {'Eq': lambda a, b: a == b, 'Ne': lambda a, b: a != b, 'Lt': lambda a, b: a < b, 'Le': lambda a, b: a <= b, 'Gt': lambda a, b: a > b, 'Ge': lambda a, b: a >= b}


def _eval_leaf(d, leaf, t):
    """integer value of d when every sub-tree satisfying `leaf` has the value t; comparisons yield 0 / 1; None = not decidable"""
    if leaf(d):
        return t
    if d[0] == 'const':
        return _ival(d[2]) if d[1] == 'int' else None
    if d[0] == 'un' and d[1] == 'Not' and d[2][0] in ('bin', 'un') and (d[2][0] == 'un' or d[2][1] in _CMP):
        v = _eval_leaf(d[2], leaf, t)
        return None if v is None else 1 - v
    if d[0] == 'bin':
        a, b = _eval_leaf(d[2], leaf, t), _eval_leaf(d[3], leaf, t)
        if a is None or b is None:
            return None
        if d[1] in _CMP:
            return int(_CMP[d[1]](a, b))
        return _OPS[d[1]](a, b) if d[1] in _OPS else None
    return None


def _flag_mask(F, body):
    """m when the one-argument predicate `body` over a newtype of a byte returns `byte & m != 0` for all 256 bytes (any spelling)"""
    rets = [x for _, x in ret_descs(F, body)]
    leaf = lambda x: x[0] == 'field' and x[2] == '0' and _is_param(x[1], 1)
    for m in (1, 2, 4, 8, 16, 32, 64, 128):
        if rets and body.argc == 1 and all(_eval_leaf(x, leaf, t) == int(t & m != 0) for x in rets for t in range(256)):
            return m
    return None


def _self_field(d, *names):
    for f in reversed(names):
        if d[0] != 'field' or d[2] != f:
            return False
        d = d[1]
    return _is_param(d, 1)


def _linear(d, sign=1, out=None):
    """{term (call blocks erased): coefficient, None: constant} of a sum / difference tree"""
    top = out is None
    if top:
        out = {}
    if _bin(d, 'Add'):
        _linear(d[2], sign, out)
        _linear(d[3], sign, out)
    elif _bin(d, 'Sub'):
        _linear(d[2], sign, out)
        _linear(d[3], -sign, out)
    elif d[0] == 'const' and d[1] == 'int' and _ival(d[2]) is not None:
        out[None] = out.get(None, 0) + sign * _ival(d[2])
    else:
        k = _nobb(d)
        out[k] = out.get(k, 0) + sign
    return {k: v for k, v in out.items() if v} if top else out


def _cond_edges(body, brs, holds):
    """([(Branch, target)] on which the condition holds, {(bb, target)} on which it does not) over the two-way branches
    for which holds(Branch) -> True (condition = discriminant), False (condition = its negation), None (other branch)"""
    pos, neg = [], set()
    for br in brs:
        h = holds(br)
        if h is None or len(br.edges) != 2:
            continue
        t, f = (br.target(1), br.target(0)) if h else (br.target(0), br.target(1))
        pos.append((br, t))
        neg.add((br.bb, f))
    return pos, neg


def _always_via(body, pos, neg, sites, goal):
    """with the condition true at every test (no `neg` edge taken) no path entry -> goal avoids every one of `sites`"""
    return bool(pos) and bool(sites) and goal not in body.reachable_from(0, avoid=set(sites), avoid_edges=neg)


def rule_i(ctx):
    F = ctx.facts
    FLAGS = ('OFF', 'LEN', 'FIN')
    # ---- encoder: StreamMeta::encode(&self, length, out)
    enc = ctx.pfn('StreamMeta::encode')
    dx = describer(F, enc)
    live = enc.live_blocks()
    bools = [k for k in range(1, enc.argc + 1) if enc.locals[k][0] == 'bool']
    ctx.check(len(bools) == 1 and enc.argc == 3, 'i', 'stream_encoder_found', enc, enc.where(), 'StreamMeta::encode(&self, length: bool, out)', 'StreamMeta::encode no longer takes one length flag and one buffer')
    if len(bools) != 1 or enc.argc != 3:
        return
    lenk = bools[0]
    outk = [k for k in (2, 3) if k != lenk][0]
    brs = branches(F, enc)

    def holds(name):
        def h(br):
            inner, neg = peel_not(br.desc)
            if name == 'LEN' and _is_param(inner, lenk):
                return not neg
            if name == 'FIN' and _self_field(inner, 'fin'):
                return not neg
            rel = relation_on(br.desc, True)
            if name == 'OFF' and rel is not None:
                op, a, b = rel
                start = lambda x: _self_field(x, 'offsets', 'start')
                if op in ('Ne', 'Eq') and ((_is_c(a, 0) and start(b)) or (_is_c(b, 0) and start(a))):
                    return op == 'Ne'
                # unsigned: 0 < start <=> start != 0 ; start <= 0 <=> start == 0 ; 1 <= start ; start < 1
                if (op == 'Lt' and _is_c(a, 0) and start(b)) or (op == 'Le' and _is_c(a, 1) and start(b)):
                    return True
                if (op == 'Le' and start(a) and _is_c(b, 0)) or (op == 'Lt' and start(a) and _is_c(b, 1)):
                    return False
            return None
        return h
    edges = {n: _cond_edges(enc, brs, holds(n)) for n in FLAGS}
    base = lambda x: x[0] == 'call' and x[1] == 'RangeInclusive::start' and len(x[3]) == 1 and x[3][0][0] == 'const' and str(x[3][0][3]).endswith('STREAM_TYS')
    # the frame type: the first thing written to the buffer; every bit OR-ed into it belongs to exactly one of the three conditions
    writes = [c for c in enc.calls() if c.bb in live and len(c.args) == 2 and _is_param(arg_desc(F, c, 0), outk)]
    tyw = [c for c in writes if _contains(arg_desc(F, c, 1), base)]
    ctx.check(len(tyw) == 1 and all(enc.dominates(tyw[0].bb, c.bb) for c in writes), 'i', 'stream_type_written_first', enc, (tyw or [enc])[0].where(), 'one write of STREAM_TYS.start | bits, before every field',
              'cannot locate the single frame-type write of StreamMeta::encode (%d candidates)' % len(tyw))
    if len(tyw) != 1:
        return
    W = tyw[0]
    ranges = {}
    for p, c in F.consts.items():
        if p.endswith('::frame::STREAM_TYS'):
            m = re.search(r'start: (\d+)_u64, end: (\d+)_u64', str(c.get('val', '')))
            if m:
                ranges['STREAM_TYS'] = (int(m.group(1)), int(m.group(2)))
    tv = evs(arg_desc(F, W, 1), None, enc, ranges)
    lo, hi = ranges.get('STREAM_TYS', (0, -1))
    ctx.check(tv is not None and tv == set(range(lo, hi + 1)) and hi - lo == 7, 'i', 'stream_types_cover_range', enc, W.where(), 'types written = STREAM_TYS = %s' % sorted(tv or ()),
              'StreamMeta::encode writes types %s, the decoder accepts STREAM_TYS %d..=%d as STREAM' % (sorted(tv) if tv else 'that cannot be computed', lo, hi))
    bits = {}
    why = []
    for i, j, pl, rv, line in enc.assigns():
        if i not in live or rv[0] != 'bin':
            continue
        x = dx.rvalue(rv, i, j, 0)
        if not (_bin(x, 'BitOr') and _contains(x, base)):
            continue
        ks = [_ival(y[2]) for y in (x[2], x[3]) if y[0] == 'const' and y[1] == 'int']
        if len(ks) != 1 or ks[0] is None:
            why.append('line %d: %s is not `type | <constant bit>`' % (line, D.render(x)[:80]))
            continue
        owners = [n for n in FLAGS if only_via(enc, edges[n][0], i)]
        if len(owners) != 1:
            why.append('line %d: bit %#x is set %s' % (line, ks[0], 'under no single one of the conditions offset != 0 / length / fin' if not owners else 'under several conditions'))
            continue
        bits.setdefault(owners[0], {}).setdefault(ks[0], []).append(i)
    enc_bit = {}
    for n in FLAGS:
        if len(bits.get(n, {})) != 1:
            why.append('%s: %s' % (n, 'no type bit is set under this condition' if not bits.get(n) else 'several bits %s' % sorted(bits[n])))
            continue
        k, sites = next(iter(bits[n].items()))
        enc_bit[n] = k
        if not _always_via(enc, edges[n][0], edges[n][1], sites, W.bb):
            why.append('%s: the type can be written without bit %#x although the condition holds' % (n, k))
    # fields: id always; offset <=> OFF; end - start <=> LEN; nothing else
    want = {'OFF': lambda a: _self_field(a, 'offsets', 'start'),
            'LEN': lambda a: _bin(a, 'Sub') and _self_field(a[2], 'offsets', 'end') and _self_field(a[3], 'offsets', 'start')}
    fsites = {'ID': [], 'OFF': [], 'LEN': []}
    for c in writes:
        if c is W:
            continue
        a = arg_desc(F, c, 1)
        kind = 'ID' if _self_field(a, 'id') else next((n for n, p in want.items() if p(a)), None)
        if kind is None:
            why.append('%s writes %s, which is neither the id, the offset nor end - start' % (c.where(), D.render(a)[:80]))
        else:
            fsites[kind].append(c.bb)
    rets = enc.return_blocks()
    if len(fsites['ID']) != 1 or any(r in enc.reachable_from(0, avoid=fsites['ID']) for r in rets):
        why.append('the stream id is not written exactly once on every path')
    for n in ('OFF', 'LEN'):
        pos, neg = edges[n]
        if not fsites[n] or not all(only_via(enc, pos, s) for s in fsites[n]):
            why.append('%s: the field is %s' % (n, 'never written' if not fsites[n] else 'written on a path on which the condition (and so the type bit) is not established'))
        elif any(not _always_via(enc, pos, neg, fsites[n], r) for r in rets):
            why.append('%s: the condition holds (type bit set) on a path that does not write the field' % n)
    order = [[W.bb], fsites['ID'], fsites['OFF'], fsites['LEN']]
    for i in range(len(order)):
        for j in range(i + 1, len(order)):
            if any(a in enc.reachable_from(b) for a in order[i] for b in order[j]):
                why.append('fields are not written in the order type, id, offset, length')
    ctx.check(set(enc_bit) == set(FLAGS) and not why, 'i', 'stream_encoder_bits_iff_fields', enc, enc.where(),
              'bits %s; offset written <=> OFF bit, end - start written <=> LEN bit <=> length flag' % sorted(enc_bit.items()),
              'StreamMeta::encode: a STREAM type bit and the field it announces can disagree: ' + '; '.join(dict.fromkeys(why)))
    # ---- decoder: StreamInfo masks and the STREAM arm of Iter::try_next
    dec_bit = {n: _flag_mask(F, ctx.pfn('StreamInfo::' + f)) for n, f in (('OFF', 'off'), ('LEN', 'len'), ('FIN', 'fin'))}
    ctx.check(None not in dec_bit.values() and dec_bit == enc_bit, 'i', 'stream_type_bits_agree', enc, enc.where(), 'StreamInfo masks = encoder bits %s' % sorted(dec_bit.items()),
              'StreamInfo::{off,len,fin} test %s, StreamMeta::encode sets %s' % (sorted(dec_bit.items(), key=str), sorted(enc_bit.items())))
    tn = ctx.pfn('Iter::try_next')
    dt = describer(F, tn)
    tbrs = branches(F, tn)
    info = lambda x: x[0] == 'field' and x[2] == '0' and x[1][0] == 'variant' and x[1][2] == 'Some' and x[1][1][0] == 'call' and x[1][1][1] == 'FrameType::stream'

    def on_info(f):
        def h(br):
            inner, neg = peel_not(br.desc)
            if inner[0] == 'call' and inner[1] == 'StreamInfo::' + f and len(inner[3]) == 1 and info(inner[3][0]):
                return not neg
            return None
        return h
    payload_of = lambda x, f: x[0] == 'field' and x[2] == '0' and x[1][0] == 'variant' and x[1][1][0] == 'call' and _lastseg(x[1][1][1]) == f

    # "everything that remains": the whole of self.bytes is moved out (and an empty buffer left behind).  That is the stated
    # effect of the helper Iter::take_remaining -- checked on its body, not taken from its name -- and it is accepted in-line too
    def _moves_all_bytes(x):
        if x[0] != 'call' or not x[3] or not _self_field(x[3][0], 'bytes'):
            return False
        if x[1] == 'mem::take' and len(x[3]) == 1:
            return True
        return (x[1] == 'mem::replace' and len(x[3]) == 2 and x[3][1][0] == 'call' and x[3][1][1] in ('Bytes::new', '<Bytes as Default>::default') and not x[3][1][3])
    helper_ok = {}

    def _takes_rest(x):
        if _moves_all_bytes(x):
            return True
        if x[0] == 'call' and x[1] == 'Iter::take_remaining' and len(x[3]) == 1 and _is_param(x[3][0], 1):
            if 'v' not in helper_ok:
                hs = [b for b in F.fns('Iter::take_remaining') if b.crate == 'quinn_proto' and b.kind == 'fn']
                rets = [y for b in hs for _, r in ret_descs(F, b) for y in flat(r)]
                helper_ok['v'] = len(hs) == 1 and bool(rets) and all(_moves_all_bytes(y) for y in rets)
            return helper_ok['v']
        return False
    aggs = []
    for i, j, pl, rv, line in tn.assigns():
        if i in tn.live_blocks() and rv[0] == 'agg' and rv[1][0] == 'adt' and rv[1][1].endswith('::frame::Stream'):
            aggs.append((i, line, dt.rvalue(rv, i, j, 0)))
    ctx.floor('i', 'stream_frame_decode_sites', len(aggs), 1)
    for bb, line, x in aggs:
        why = []
        fld = dict(zip(x[4], x[3])) if len(x) > 4 else {}
        if not {'id', 'offset', 'fin', 'data'} <= set(fld):
            ctx.bad('i', 'stream_decoder_fields_iff_bits', tn, '%s:%d' % (tn.file, line), 'frame::Stream is not built in place from id / offset / fin / data')
            continue
        # data: take_len() <=> LEN bit, else everything that remains
        pos, neg = _cond_edges(tn, tbrs, on_info('len'))
        alts = flat(fld['data'])
        tl = [a[1][1][4] for a in alts if payload_of(a, 'take_len') and len(a[1][1]) > 4]
        tr = [a[4] for a in alts if _takes_rest(a) and len(a) > 4]
        hl = on_info('len')
        npos, nneg = _cond_edges(tn, tbrs, lambda br: None if hl(br) is None else not hl(br))
        if len(tl) + len(tr) != len(alts) or not tl or not tr:
            why.append('data is %s, not take_len() | take_remaining()' % D.render(fld['data'])[:120])
        elif not (all(only_via(tn, pos, s) for s in tl) and _always_via(tn, pos, neg, tl, bb)):
            why.append('the length-prefixed read is not taken exactly when StreamInfo::len() holds')
        elif not (all(only_via(tn, npos, s) for s in tr) and _always_via(tn, npos, nneg, tr, bb)):
            why.append('take_remaining() is not taken exactly when StreamInfo::len() does not hold')
        # offset: read <=> OFF bit, else 0
        pos, neg = _cond_edges(tn, tbrs, on_info('off'))
        alts = flat(fld['offset'])
        gv = [a[1][1][4] for a in alts if payload_of(a, 'get_var') and len(a[1][1]) > 4]
        if len(gv) + sum(1 for a in alts if _is_c(a, 0)) != len(alts) or not gv or len(gv) == len(alts):
            why.append('offset is %s, not get_var() | 0' % D.render(fld['offset'])[:120])
        elif not (all(only_via(tn, pos, s) for s in gv) and _always_via(tn, pos, neg, gv, bb)):
            why.append('the offset is not read exactly when StreamInfo::off() holds')
        f = fld['fin']
        if not (f[0] == 'call' and f[1] == 'StreamInfo::fin' and len(f[3]) == 1 and info(f[3][0])):
            why.append('fin is %s, not StreamInfo::fin()' % D.render(f)[:80])
        idr = [a[1][1][4] for a in flat(fld['id']) if payload_of(a, 'get') and len(a[1][1]) > 4]
        if len(idr) != 1 or any(not tn.dominates(idr[0], s) or s == idr[0] for s in gv + tl + tr) or any(a in tn.reachable_from(b) for a in gv for b in tl + tr):
            why.append('the fields are not read in the order id, offset, data')
        ctx.check(not why, 'i', 'stream_decoder_fields_iff_bits', tn, '%s:%d' % (tn.file, line), 'id; offset <=> off(); take_len() <=> len(), else take_remaining(); fin()',
                  'the STREAM arm of Iter::try_next does not read the fields the type bits announce: ' + '; '.join(why))
    # ---- every encode site: range and flag of ONE poll_transmit; the room it was given is exactly what is left of the buffer
    n = 0
    for c in F.all_calls('quinn_proto'):
        if not (c.is_('StreamMeta::encode') and len(c.args) == 3):
            continue
        n += 1
        root = F.root_of(c.body)
        meta, flag, out = arg_desc(F, c, 0), arg_desc(F, c, lenk - 1), arg_desc(F, c, outk - 1)
        polled = lambda x, k: x[0] == 'field' and x[2] == k and x[1][0] == 'call' and x[1][1] == 'SendBuffer::poll_transmit' and len(x[1]) > 4
        fld = dict(zip(meta[4], meta[3])) if meta[0] == 'agg' and len(meta) > 4 and meta[2].endswith('StreamMeta::StreamMeta') else {}
        off = fld.get('offsets')
        why = []
        if off is None or not polled(off, '0'):
            why.append('the frame range is %s, not the range returned by SendBuffer::poll_transmit' % (D.render(off)[:100] if off else D.render(meta)[:100]))
        else:
            P = off[1]
            for a in flat(flag):
                if not (_is_c(a, 1) or (polled(a, '1') and a[1] == P)):
                    why.append('the length flag is %s, not the flag poll_transmit returned with this range (or `true`)' % D.render(a)[:100])
            lin = _linear(P[3][1]) if len(P[3]) == 2 else {}
            plus = [k for k, v in lin.items() if v > 0]
            minus = {k: v for k, v in lin.items() if v < 0}
            exp = {None: -1,
                   ('call', 'Vec::len', 'std::vec::Vec::len', (_nobb(out),)): -1,
                   ('call', 'VarInt::size', 'quinn_proto::varint::VarInt::size', (_nobb(fld.get('id', ())),)): -1}
            if not (_is_param(out) and len(plus) == 1 and _is_param(plus[0]) and lin[plus[0]] == 1 and minus == exp):
                why.append('poll_transmit is given the room %s, not <limit> - %s.len() - 1 - VarInt::size(<this frame\'s id>): a frame without length would not end where the room ends'
                           % (D.render(P[3][1])[:160] if len(P[3]) == 2 else '?', D.render(out)[:20]))
        ctx.check(not why, 'i', 'stream_encode_gets_polled_range_and_flag', root, c.where(), 'StreamMeta{offsets: P.0}.encode(P.1, buf), P = poll_transmit(limit - buf.len() - 1 - size(id))',
                  'a STREAM frame is encoded with a range / length flag / room that do not belong together: ' + '; '.join(why))
    ctx.floor('i', 'stream_encode_sites', n, 1)
    # ---- SendBuffer::poll_transmit: the flag is false only when the range returned reaches the end of the room (rule shared with C01.e)
    from rules import C01 as _c01
    shared = getattr(_c01, 'rule_e_length', None)
    if shared is None:
        ctx.bad('i', 'length_omitted_only_when_frame_fills_room', 'rules.C01', '', 'the shared rule C01.rule_e_length is gone: the obligation is not checked')
    else:
        shared(_Relabel(ctx, 'i'))


def run(ctx):
    _c03.guarded_reads(ctx, 'a')
    rule_a_scan(ctx)
    rule_b(ctx)
    rule_c(ctx)
    rule_d(ctx)
    rule_e(ctx)
    rule_f(ctx)
    rule_g(ctx)
    rule_h(ctx)
    rule_i(ctx)
