"""C10 — wire encodings round-trip; decoders are total (structural part)."""
from engine.rulelib import *
from engine import desc as D
from rules import C03 as _c03

EXPLANATION = ("Static rules over quinn-proto MIR: (a) decoder totality = the GUARDED-READ obligation set of C03.a evaluated for this property; (b) the frame-type "
               "table agrees across its users: FrameType constants = arms of frame::Iter::try_next = types written by the encoders (with named never-sent "
               "exceptions); (c) transport-parameter tables agree: enum discriminants = TryFrom<u64> arms = SUPPORTED elements; write and read dispatch on the same "
               "id sets; (d) varint size/encode/decode agree on the 2^6/2^14/2^30 boundaries and tags; packet-number length tables agree; the packet-number "
               "expansion guard compares the candidate on both sides; (e) long-header type bits are inverse tables; (f) coalesced packets split at position+len and "
               "truncated lengths are rejected. Round-trip equality for all values is value-level and NOT decided.")
RULE = "rule instances = table-agreement comparisons and guarded-read sites; non-trivial = bound to real constants / sites"


def switch_values(br):
    return sorted(v for v, _ in br.edges if v is not None)


def rule_b(ctx):
    F = ctx.facts
    consts = {}
    for p, c in F.consts.items():
        if '::frame::FrameType::' in p and c['kind'] == 'int':
            consts[p.split('::')[-1]] = int(c['val'])
    ctx.check(len(consts) >= 25, 'b', 'frame_type_constants', 'FrameType', '', '%d constants' % len(consts), 'FrameType constants not found')
    tn = ctx.pfn('Iter::try_next')
    big = [br for br in branches(F, tn) if len(br.edges) > 10]
    ctx.check(len(big) == 1, 'b', 'decoder_dispatch_switch', tn, tn.where(), 'one dispatch switch', 'cannot locate the frame type dispatch of Iter::try_next')
    if big:
        vals = set(switch_values(big[0]))
        cv = set(consts.values())
        ctx.check(vals == cv, 'b', 'decoder_arms_equal_frame_type_constants', tn, big[0].where(), '%d arms = %d constants' % (len(vals), len(cv)),
                  'frame types without a decode arm: %s; decode arms without a constant: %s' % (sorted(hex(x) for x in cv - vals), sorted(hex(x) for x in vals - cv)))
    # stream / datagram ranges handled in the fallback arm
    ctx.check(bool(tn.calls_to('FrameType::stream')) and bool(tn.calls_to('FrameType::datagram')), 'b', 'ranged_types_decoded', tn, tn.where(), 'STREAM/DATAGRAM type ranges handled', 'STREAM or DATAGRAM type ranges are no longer decoded')
    # encoders
    written = {}
    for c in F.all_calls('quinn_proto'):
        if (c.is_('BufMutExt::write') or short(c.f).endswith('BufMutExt>::write')) and any('FrameType' in g for g in c.ga):
            ad = arg_desc(F, c, 1)
            for x in walk(ad):
                if x[0] == 'const' and x[3] and 'FrameType::' in x[3]:
                    written.setdefault(x[3].split('::')[-1], []).append(F.root_of(c.body).short)
    NEVER_SENT = {'PADDING': 'padding is produced by zero-filling the buffer', 'DATA_BLOCKED': 'quinn never sends DATA_BLOCKED', 'STREAM_DATA_BLOCKED': 'quinn never sends STREAM_DATA_BLOCKED'}
    for name in sorted(consts):
        if name in NEVER_SENT:
            ctx.ok('b', 'frame_type_has_encoder', 'FrameType::' + name, '', 'exception: ' + NEVER_SENT[name])
            continue
        ctx.check(name in written, 'b', 'frame_type_has_encoder', 'FrameType::' + name, '', 'written by %s' % sorted(set(written.get(name, [])))[:3], 'FrameType::%s is decoded but no encoder writes it' % name)
    unknown = set(written) - set(consts)
    ctx.check(not unknown, 'b', 'encoders_use_known_types', 'FrameType', '', 'all written types are table constants', 'encoders write unknown frame types %s' % unknown)
    # Frame::ty covers every Frame variant
    fr = F.adt('frame::Frame')
    ty = ctx.pfn('Frame::ty')
    disp = [br for br in branches(F, ty) if br.desc[0] == 'discr' and len(br.edges) > 10]
    ctx.check(bool(disp) and len(switch_values(disp[0])) + 1 >= len(fr['variants']), 'b', 'frame_ty_total', ty, ty.where(), '%d variants' % len(fr['variants']), 'Frame::ty does not cover every Frame variant')


def rule_c(ctx):
    F = ctx.facts
    tp = F.adt('transport_parameters::TransportParameterId')
    discr = {v['name']: int(v['discr']) for v in tp['variants']}
    tf = ctx.pfn('<TransportParameterId as TryFrom>::try_from')
    # a chain of `id if Self::X == id => Self::X` arms: the variant compared (promoted constant) and the variant returned must agree
    eqs = [c for c in tf.calls() if c.is_('PartialEq::eq') or short(c.f).endswith('PartialEq>::eq')]
    d = describer(F, tf)
    seen = set()
    okpairs = True
    for c in eqs:
        a0 = arg_desc(F, c, 0)
        gv = [x[2].split('::')[-1] for x in walk(a0) if x[0] == 'agg' and x[1] == 'adt' and 'TransportParameterId' in x[2]]
        if not gv:
            continue
        # the true edge of the branch on this call constructs the same variant
        for br in branches(F, tf):
            inner, neg = peel_not(br.desc)
            if inner[0] in ('call', 'bin') and contains_site(inner, c):
                tgt = br.target(0 if neg else 1)
                rv = [rv_[1][2] for i, j, pl, rv_, line in tf.assigns() if i in tf.reachable_from(tgt, avoid=[x.bb for x in eqs if x.bb != c.bb]) and rv_[0] == 'agg' and rv_[1][0] == 'adt' and rv_[1][1].endswith('TransportParameterId')]
                if rv and rv[0] != gv[0] and gv[0] not in rv[:1]:
                    okpairs = False
                    ctx.bad('c', 'try_from_arm_returns_compared_variant', tf, c.where(), 'arm compares with %s but returns %s' % (gv[0], rv[0]))
                seen.add(gv[0])
    ctx.check(okpairs and seen == set(discr), 'c', 'try_from_arms_equal_discriminants', tf, tf.where(), '%d ids' % len(seen),
              'TransportParameterId::try_from arms differ from the enum variants: missing %s' % sorted(set(discr) - seen))
    sup = F.const_body('TransportParameterId::SUPPORTED')
    elems = []
    for i, j, pl, rv, line in sup.assigns():
        if rv[0] == 'agg' and rv[1][0] == 'adt' and rv[1][1].endswith('TransportParameterId'):
            elems.append(rv[1][2])
    ctx.check(sorted(elems) == sorted(discr), 'c', 'supported_lists_every_id_once', sup, sup.where(), '%d elements' % len(elems),
              'SUPPORTED %s is not a permutation of the enum variants (missing %s, duplicated %s)' % (len(elems), sorted(set(discr) - set(elems)), sorted(x for x in elems if elems.count(x) > 1)))
    # write / read dispatch on the same ids
    wr = ctx.pfn('TransportParameters::write')
    rd = ctx.pfn('TransportParameters::read')

    def handled(b):
        out = set()
        for br in branches(F, b):
            if br.desc[0] == 'discr' and len(br.edges) >= 5 and ('TransportParameterId' in D.render(br.desc) or 'SUPPORTED' in D.render(br.desc) or 'try_from' in D.render(br.desc)):
                out |= set(switch_values(br))
        return out
    hw, hr = handled(wr), handled(rd)
    # discriminant switch values are enum discriminants
    ids = set(discr.values())
    ctx.check(hw and hw <= ids and hr and hr <= ids, 'c', 'tp_dispatch_found', wr, wr.where(), 'write arms %d, read arms %d' % (len(hw), len(hr)), 'cannot locate the id dispatch of write/read')
    only_w = hw - hr - {discr['ReservedTransportParameter']}
    ctx.check(not only_w, 'c', 'every_written_id_is_read', rd, rd.where(), 'ids with an explicit arm in write also have one in read',
              'transport parameter ids %s are written but have no arm in read()' % sorted(hex(x) for x in only_w))


def rule_d(ctx):
    F = ctx.facts
    sz = ctx.pfn('VarInt::size')
    enc = ctx.pfn('<VarInt as Codec>::encode')
    dec = ctx.pfn('<VarInt as Codec>::decode')

    def pow_bounds(b):
        out = set()
        for br in branches(F, b):
            for x in walk(br.desc):
                if x[0] == 'call' and x[1] == 'u64::pow' and x[3][0][0] == 'const' and x[3][1][0] == 'const':
                    out.add((int(x[3][0][2]), int(x[3][1][2])))
        return out
    ps, pe = pow_bounds(sz), pow_bounds(enc)
    exp = {(2, 6), (2, 14), (2, 30), (2, 62)}
    ctx.check(ps == exp, 'd', 'varint_size_boundaries', sz, sz.where(), str(sorted(ps)), 'VarInt::size boundaries %s differ from 2^6/2^14/2^30/2^62' % sorted(ps))
    ctx.check(pe == exp, 'd', 'varint_encode_boundaries', enc, enc.where(), str(sorted(pe)), 'VarInt::encode boundaries %s differ from 2^6/2^14/2^30/2^62' % sorted(pe))
    ctx.check(ps == pe, 'd', 'varint_size_encode_agree', sz, sz.where(), 'same boundary set', 'VarInt::size and VarInt::encode disagree on encoding-size boundaries')
    rs = sorted({str(c) for _, x in ret_descs(F, sz) for y in flat(x) if y[0] == 'const' for c in [y[2]]})
    ctx.check(rs == ['1', '2', '4', '8'], 'd', 'varint_sizes', sz, sz.where(), str(rs), 'VarInt::size returns %s instead of 1/2/4/8' % rs)
    # decode: tag switch 0..3 and guards 1/3/7
    tags = [br for br in branches(F, dec) if len(br.edges) == 4 or (len(br.edges) == 5)]
    tv = set()
    for br in tags:
        tv |= set(switch_values(br))
    ctx.check({0, 1, 2} <= tv, 'd', 'varint_decode_tag_dispatch', dec, dec.where(), 'tags %s' % sorted(tv), 'VarInt::decode tag dispatch changed')
    # encoder tags: 0b01<<14 (0x4000), 0b10<<30, 0b11<<62
    shl = set()
    for i, j, pl, rv, line in enc.assigns():
        x = describer(F, enc).rvalue(rv, i, j, 0)
        for n in walk(x):
            if n[0] == 'bin' and n[1] == 'Shl' and n[2][0] == 'const' and n[3][0] == 'const':
                shl.add((int(n[2][2]), int(n[3][2])))
    want = {(1, 14), (2, 30), (3, 62)}
    ctx.check(want <= shl, 'd', 'varint_encode_tags', enc, enc.where(), 'tags 0b01<<14, 0b10<<30, 0b11<<62', 'VarInt::encode tag constants changed: %s' % sorted(shl))
    # packet number lengths
    pn_new = ctx.pfn('PacketNumber::new')
    pn_len = ctx.pfn('PacketNumber::len')
    pn_dec = ctx.pfn('PacketNumber::decode')
    pn_dl = ctx.pfn('PacketNumber::decode_len')
    lens = sorted({str(y[2]) for _, x in ret_descs(F, pn_len) for y in flat(x) if y[0] == 'const'})
    ctx.check(lens == ['1', '2', '3', '4'], 'd', 'packet_number_lengths', pn_len, pn_len.where(), str(lens), 'PacketNumber::len returns %s' % lens)
    dv = set()
    for br in branches(F, pn_dec):
        if D.has_param(br.desc, name='len'):
            dv |= set(switch_values(br))
    ctx.check(dv == {1, 2, 3, 4}, 'd', 'packet_number_decode_lengths', pn_dec, pn_dec.where(), str(sorted(dv)), 'PacketNumber::decode dispatches on lengths %s' % sorted(dv))
    rd = [x for _, x in ret_descs(F, pn_dl)]
    ok = all(x[0] == 'bin' and x[1] == 'Add' and D.has_const(x, 1) and D.has_const(x, 3) for x in rd)
    ctx.check(ok, 'd', 'packet_number_decode_len_formula', pn_dl, pn_dl.where(), '1 + (tag & 3)', 'decode_len is no longer 1 + (tag & 0x03)')
    # expansion guards compare the candidate on both sides
    ex = ctx.pfn('PacketNumber::expand')
    brs = [br for br in branches(F, ex, stop_named=True) if relation_on(br.desc, True)]
    cand = 0
    for br in brs:
        o, a, b = relation_on(br.desc, True)
        if 'win' in D.render(a) + D.render(b) and 'hwin' not in D.render(a) + D.render(b):
            # the `> win` / `< (1<<62) - win` guards must test `candidate`
            if 'candidate' in D.render(a) + D.render(b):
                cand += 1
            else:
                ctx.bad('d', 'pn_expand_guard_on_candidate', ex, br.where(), 'a window-wrap guard of PacketNumber::expand does not test `candidate`: %s' % D.render(br.desc)[:160])
    ctx.check(cand >= 1, 'd', 'pn_expand_guard_on_candidate', ex, ex.where(), '%d candidate window guards' % cand, 'PacketNumber::expand lost a candidate-vs-window guard')
    # RFC 9000 A.3 shape: the decoding window is centred on `expected`: (expected - hwin, expected + hwin], hwin = win / 2
    dx = describer(F, ex)
    hw = local_defs_desc(ctx, ex, 'hwin')
    okh = len(hw) == 1 and hw[0][0] == 'bin' and hw[0][1] == 'Div' and D.has_const(hw[0][3], 2) and D.has_const(hw[0][2], 1) and D.calls_in(hw[0]) <= {'PacketNumber::len'}
    ctx.check(okh, 'd', 'pn_expand_half_window', ex, ex.where(), 'hwin = (1 << nbits) / 2', 'hwin is no longer half the truncation window: ' + ' | '.join(D.render(x)[:80] for x in hw))

    def is_local(d, name):
        return d[0] == 'local' and len(d) > 2 and d[2] == name
    up = lo = wn = None
    for br in brs:
        o, a, b = relation_on(br.desc, True)
        if o == 'Lt' and is_local(b, 'candidate') and a[0] == 'bin' and a[1] == 'Add' and {True} == {is_local(x, 'hwin') or (x[0] == 'param' and x[2] == 'expected') for x in (a[2], a[3])} and D.has_param(a, name='expected') and 'hwin' in D.render(a):
            up = br
        if o == 'Lt' and is_local(b, 'candidate') and is_local(a, 'win'):
            wn = br
    for br in branches(F, ex, stop_named=True):
        d = br.desc
        if d[0] == 'call' and d[1] == 'Option::is_some_and' and D.has_call(d[3][0], 'u64::checked_sub'):
            cs = [x for x in walk(d[3][0]) if x[0] == 'call' and x[1] == 'u64::checked_sub'][0]
            okc = cs[3][0][0] == 'param' and cs[3][0][2] == 'expected' and is_local(cs[3][1], 'hwin')
            cl = [b for b in F.code_bodies('quinn_proto') if b.kind == 'closure' and F.root_of(b).id == ex.id]
            okr = any(x == ('bin', 'Le', ('upvar', 'candidate'), ('param', x[3][1] if x[3][0] == 'param' else 0, x[3][2] if x[3][0] == 'param' else '')) for b in cl for _, x in ret_descs(F, b) if x[0] == 'bin' and len(x) >= 4 and isinstance(x[3], tuple) and len(x[3]) >= 3)
            if okc and okr:
                lo = br
    ctx.check(lo is not None, 'd', 'pn_expand_lower_edge', ex, ex.where(), 'expected.checked_sub(hwin).is_some_and(|x| candidate <= x)', 'the lower window edge is no longer `candidate <= expected - hwin`')
    ctx.check(up is not None, 'd', 'pn_expand_upper_edge', ex, ex.where(), 'candidate > expected + hwin', 'the upper window edge is no longer `candidate > expected + hwin`')
    ctx.check(wn is not None, 'd', 'pn_expand_no_underflow', ex, ex.where(), 'candidate > win', 'the `candidate > win` underflow guard changed')
    # corrections: +win on the lower edge, -win on the upper edge, candidate otherwise
    rds = flat(ret_descs(F, ex)[0][1]) if len(ret_descs(F, ex)) == 1 else [x for _, x in ret_descs(F, ex)]
    kinds = sorted((x[1] if x[0] == 'bin' and x[1] in ('Add', 'Sub') and D.has_call(x[3], 'PacketNumber::len') else 'plain') for x in rds)
    ctx.check(kinds == ['Add', 'Sub', 'plain'], 'd', 'pn_expand_corrections', ex, ex.where(), 'candidate + win | candidate - win | candidate', 'expand returns %s' % kinds)


def rule_e(ctx):
    F = ctx.facts
    fb = ctx.pfn('LongHeaderType::from_byte')
    tb = ctx.pfn('<u8 as From>::from') if F.try_fn('<u8 as From>::from', 'quinn_proto') else None
    disp = [br for br in branches(F, fb) if len(br.edges) >= 4]
    vals = set()
    for br in disp:
        vals |= set(switch_values(br))
    ctx.check({0, 1, 2} <= vals, 'e', 'long_type_decode_table', fb, fb.where(), 'arms %s' % sorted(vals), 'LongHeaderType::from_byte arms changed: %s' % sorted(vals))
    enc = [b for b in F.fns('<u8 as From>::from') if b.crate == 'quinn_proto' and any('LongHeaderType' in x[0] for x in b.locals)]
    okc = False
    for b in enc:
        shl = set()
        for i, j, pl, rv, line in b.assigns():
            x = describer(F, b).rvalue(rv, i, j, 0)
            for n in walk(x):
                if n[0] == 'bin' and n[1] == 'Shl' and n[2][0] == 'const' and n[3][0] == 'const':
                    shl.add((int(n[2][2]), int(n[3][2])))
        okc = {(1, 4), (2, 4), (3, 4)} <= shl
    ctx.check(okc, 'e', 'long_type_encode_table', enc[0] if enc else fb, (enc[0] if enc else fb).where(), 'type bits 1/2/3 << 4 (Initial = 0)', 'From<LongHeaderType> for u8 constants changed')
    # decode side extracts the same two bits: (b & 0x30) >> 4
    dd = [D.render(br.desc) for br in disp]
    ctx.check(any('48' in x and 'Shr' in x and '4' in x for x in dd), 'e', 'long_type_decode_bits', fb, fb.where(), '(b & 0x30) >> 4', 'LongHeaderType::from_byte no longer extracts bits 4-5')


def rule_f(ctx):
    F = ctx.facts
    pd = ctx.pfn('PartialDecode::new')
    so = pd.calls_to('BytesMut::split_off')
    ctx.floor('f', 'coalesced_split_sites', len(so), 1)
    for c in so:
        a = arg_desc(F, c, 1)
        ok = D.has_call(a, 'Cursor::position') or 'position' in D.render(a) or 'len' in D.render(a)
        ctx.check(ok, 'f', 'split_at_header_plus_length', pd, c.where(), D.render(a)[:120], 'coalesced packets are not split at position + len: ' + D.render(a)[:160])
    # truncated length rejected before the split
    g = guard_edges(ctx, pd, lambda o, x, y: o == 'Lt' and ('len' in D.render(x) or 'remaining' in D.render(x)) and ('len' in D.render(y) or 'position' in D.render(y)))
    ctx.check(bool(g) or bool(pd.calls_to('usize::checked_add')) or bool([c for c in pd.calls() if 'Ordering' in ' '.join(c.ga) or c.is_('Ord::cmp')]), 'f', 'truncated_packet_rejected', pd, pd.where(), 'length comparison present', 'PartialDecode::new no longer compares the encoded length with the datagram length')


def run(ctx):
    _c03.guarded_reads(ctx, 'a')
    rule_b(ctx)
    rule_c(ctx)
    rule_d(ctx)
    rule_e(ctx)
    rule_f(ctx)
