"""C04 — only authentic packets are acted on, each at most once (structural part)."""
from engine.rulelib import *
from engine import desc as D

EXPLANATION = ("Static path rules over quinn-proto MIR: (a) every call of Connection::process_decrypted_packet is dominated by a successful decryption and by "
               "a site reaching Dedup::insert on the same space, and lies off the duplicate edge; on_packet_authenticated likewise; (b) handle_first_packet is "
               "called only from Endpoint::accept past PacketKey::decrypt's Ok edge; reserved bits are checked before a connection is created; (c) the stateless "
               "reset flag requires len >= RESET_TOKEN_SIZE+5 and equality with the stored token over the last 16 bytes, maps to ConnectionError::Reset only when "
               "set, and the endpoint consults reset tokens only after all CID/tuple lookups missed; the active reset token follows the active remote CID; (d) Retry "
               "and Version Negotiation acceptance guards (no packet counted yet, token present, integrity tag valid, client) dominate every state change of their arms "
               "including the count of the accepted Retry itself; handle_packet counts every protected packet before processing and never an unprotected one; (e) a failed authentication writes only counters; (f) key-update acceptance guards; (g) server Initial token consistency; (h) a client discards every 0-RTT packet before header-protection removal. "
               "AEAD strength is a component boundary and NOT decided.")
RULE = "rule instances = (rule, site) pairs over MIR call sites / branches / stores; non-trivial = bound to at least one real site"


def rule_a(ctx):
    F = ctx.facts
    hp = ctx.pfn('Connection::handle_packet')
    hfp = ctx.pfn('Connection::handle_first_packet')
    who_may_call(ctx, 'a', 'process_decrypted_packet_callers', ['Connection::process_decrypted_packet'], ['Connection::handle_packet', 'Connection::handle_first_packet'], floor=2)
    # process_decrypted_packet counts an ACCEPTED Retry itself (the packet has no packet protection: handle_packet must not
    # count it before the integrity tag verified); that site's obligations are d/retry_* and d/accepted_retry_*
    who_may_call(ctx, 'a', 'on_packet_authenticated_callers', ['Connection::on_packet_authenticated'],
                 ['Connection::handle_packet', 'Connection::handle_first_packet', 'Connection::process_decrypted_packet'], floor=3)
    for b in (hp, hfp):
        sites = b.calls_to('Connection::process_decrypted_packet') + b.calls_to('Connection::on_packet_authenticated')
        # a packet without a packet number (Retry / Version Negotiation: decrypt_packet returned Ok(None)) has nothing to
        # record: a path that leaves a test of THAT number's Option discriminant over its None edge is exempt, whether the
        # test is made inside Option::is_some_and (a may-site itself) or spelled `match number { Some(n) => insert(n), None => false }`
        none_edges = _number_none_edges(F, b, b.calls_to('Connection::decrypt_packet')) if b is hp else set()
        for s in sites:
            p = _must_precede_or_edge(F, b, s.bb, ['Dedup::insert'], 2, none_edges)
            ctx.check(p is None, 'a', 'process_before_dedup', b, s.where(), 'every path to %s passes a site reaching Dedup::insert (or the None edge of the packet number: %d edge(s))' % (short(s.f), len(none_edges)),
                      'a path reaches %s without recording the packet number in Dedup: %s' % (short(s.f), fmt_path(b, p)))
    # the packet number recorded is the one processed (same value flows to both)
    for c in hfp.calls_to('Dedup::insert'):
        ctx.check(D.has_param(arg_desc(F, c, 1), name='packet_number'), 'a', 'first_packet_number_recorded', hfp, c.where(), 'dedup.insert(packet_number)', 'Dedup::insert is given something other than the first packets number')
        recv = arg_desc(F, c, 0)
        ctx.check(D.has_field(recv, 'dedup') and (D.has_const(recv, named='Initial') or 'Initial' in D.render(recv)), 'a', 'first_packet_recorded_in_initial_space', hfp, c.where(), D.render(recv)[:120], 'first packet recorded in the wrong space')
    # handle_packet: duplicate edge never reaches processing
    sites = hp.calls_to('Connection::process_decrypted_packet') + hp.calls_to('Connection::on_packet_authenticated')
    dup = [c for c in hp.calls() if site_may_reach(F, c, ['Dedup::insert'], 2) and not c.is_('Connection::process_decrypted_packet', 'Connection::on_packet_authenticated')]
    ok = bool(dup)
    nb = 0
    for c in dup:
        for br in branches(F, hp):
            inner, neg = peel_not(br.desc)
            if contains_site(inner, c) and inner[0] == 'call':
                t_dup = br.target(0 if neg else 1)
            else:
                # the same test with the verdict kept in a local: `let dup = match number { Some(n) => <c>, None => false }; if dup`
                pol = _verdict_of_site(F, hp, br, c)
                if pol is None:
                    continue
                t_dup = br.target(0 if pol else 1)
            nb += 1
            reach = hp.reachable_from(t_dup)
            for s in sites:
                if s.bb in reach:
                    ok = False
    ctx.check(ok and nb >= 1, 'a', 'duplicate_edge_skips_processing', hp, hp.where(), 'is_duplicate true edge reaches no processing site (%d branch)' % nb,
              'a packet flagged duplicate by Dedup::insert can still be processed (or the result of the duplicate test is ignored)')
    # the closure handed to is_some_and inserts into the space of the packet
    # decrypt dominance in handle_packet
    dec = hp.calls_to('Connection::decrypt_packet')
    ctx.floor('a', 'decrypt_sites', len(dec), 1)
    for s in sites:
        # the packet / packet number handed to processing ARE the Ok payload of decrypt_packet: element 1 of the
        # payload is the number decrypt_packet returned, element 0 the packet it decrypted in place
        if s.is_('Connection::process_decrypted_packet'):
            want = [(3, 1, 'number'), (4, 0, 'packet')]
        else:
            want = [(4, 1, 'packet_number'), (2, 'space', 'space_id')]
        for idx, k, nm in want:
            ad = arg_desc(F, s, idx)
            if k == 'space':
                okf = ad[0] == 'call' and ad[1] == 'Header::space' and len(ad[3]) == 1 and ad[3][0][0] == 'field' and ad[3][0][2] == 'header' \
                    and _from_decrypt(F, ad[3][0][1], dec, 0)
            else:
                okf = _from_decrypt(F, ad, dec, k)
            ctx.check(okf, 'a', 'process_after_decrypt', hp, s.where(), '`%s` is the Ok payload of decrypt_packet' % nm,
                      '%s is handed a `%s` that is not the one decrypt_packet authenticated: %s' % (short(s.f), nm, D.render(ad)[:200]))
    # every processing site is reachable only over the Ok edge of a test of a Result that is Ok only if decrypt_packet
    # returned Ok (dominance by the edge; a verdict is never overwritten by another branch)
    good = []
    for br in branches(F, hp):
        if br.desc[0] == 'discr' and br.desc[1][0] in ('call', 'phi') and any(contains_site(br.desc[1], c) and _ok_payloads(F, br.desc[1], c) for c in dec):
            good.append(br)
    unprot = [s for s in sites if not any(edge_dominates(hp, br.bb, br.target(0), s.bb) for br in good)]
    ctx.check(bool(good) and bool(sites) and not unprot, 'a', 'decrypt_error_edge_skips_processing', hp, hp.where(),
              'every processing site lies behind the Ok edge of a Result that is Ok only when decrypt_packet succeeded (%d test(s))' % len(good),
              'a packet that failed decryption can reach processing: %s not dominated by the Ok edge of decrypt_packet' % [short(s.f) for s in unprot])
    dp = ctx.pfn('Connection::decrypt_packet')
    ctx.check(must_call(F, dp, ['packet_crypto::decrypt_packet_body'], 0), 'a', 'decrypt_packet_decrypts', dp, dp.where(), 'must-calls decrypt_packet_body', 'decrypt_packet no longer always decrypts')
    body = ctx.pfn('packet_crypto::decrypt_packet_body')
    decs = body.calls_to('PacketKey::decrypt')
    ctx.floor('a', 'aead_decrypt_sites', len(decs), 1)
    # Ok(Some(..)) result only after the AEAD call's Ok edge
    oks = [c for c in constructions(F, 'DecryptPacketResult', 'DecryptPacketResult', crate='quinn_proto')]
    for o in oks:
        p = must_precede(F, body, o.bb, ['PacketKey::decrypt'], depth=0)
        ctx.check(p is None, 'a', 'result_only_after_aead', body, o.where(), 'dominated by PacketKey::decrypt', 'a decrypted-packet result can be produced without the AEAD call')
    for c in decs:
        _err_edge_skips(ctx, 'a', 'aead_failure_yields_no_packet', body, c, [o.bb for o in oks])


# --------------------------------------------------------------------------
# Result provenance helpers (rule a)
# --------------------------------------------------------------------------

def _number_none_edges(F, body, dec):
    """(bb, target) of the None edge of every branch on the discriminant of the packet number decrypt_packet returned
    (element 1 of the Ok payload of a Result that is Ok only when a decrypt_packet site returned Ok)"""
    out = set()
    for br in branches(F, body):
        if br.desc[0] == 'discr' and _from_decrypt(F, br.desc[1], dec, 1):
            t_none = br.target(STD_VARIANTS['Option']['None'])
            others = {t for v, t in br.edges if v is not None and v != STD_VARIANTS['Option']['None']}
            if t_none is not None and t_none not in others:
                out.add((br.bb, t_none))
    return out


def _must_precede_or_edge(F, body, site_bb, pats, depth, exempt_edges):
    """must_precede, except that a path using one of exempt_edges is not offending.  None or an offending block path."""
    blocks = may_sites(F, body, pats, depth) - {site_bb}
    if site_bb not in body.live_blocks():
        return None
    if not exempt_edges:
        return path_avoiding(body, [0], [site_bb], blocks)
    if site_bb not in body.reachable_from(0, avoid=blocks, avoid_edges=exempt_edges):
        return None
    from collections import deque
    prev, q = {0: None}, deque([0])
    while q:
        x = q.popleft()
        if x == site_bb:
            path = []
            while x is not None:
                path.append(x)
                x = prev[x]
            return list(reversed(path))
        for y in body.succ[x]:
            if y in blocks or y in prev or (x, y) in exempt_edges:
                continue
            prev[y] = x
            q.append(y)
    return [site_bb]


def _bool_sources(F, body, op, bb, idx, neg=False, depth=0):
    """terminal definitions of a bool operand followed through whole-local copies / moves and `!`:
    (kind, payload, negated, defining block) with kind in call | const | other"""
    if op[0] not in ('c', 'm'):
        return [('const', str(op[2]), neg, bb)]
    local, proj = op[1]
    if proj or depth > 12:
        return [('other', None, neg, bb)]
    out = []
    for df in describer(F, body).reaching_defs(local, bb, idx):
        if df[0] == 'call':
            out.append(('call', df[2], neg, df[1]))
        elif df[0] == 'stmt' and df[3][0] == 'use':
            out.extend(_bool_sources(F, body, df[3][1], df[1], df[2], neg, depth + 1))
        elif df[0] == 'stmt' and df[3][0] == 'un' and df[3][1] == 'Not':
            out.extend(_bool_sources(F, body, df[3][2], df[1], df[2], not neg, depth + 1))
        else:
            out.append(('other', None, neg, df[1] if len(df) > 1 and isinstance(df[1], int) else bb))
    return out


def reach_assuming(F, body, call_value, discr_values, avoid=(), avoid_edges=()):
    """P11 path partition: blocks reachable from the entry of `body` when every branch whose outcome is decided by the
    assumption only takes the consistent edge.  call_value(desc of a call result) -> True / False / None (unknown);
    discr_values(desc of a matched value) -> set of possible discriminants / None.  A bool test is followed through
    copies, `!` and literals (_bool_sources): of the alternatives reaching the switch only those defined in a block
    that is itself still reachable under the assumption count (`let drop = a && b; if drop` decides like `if a && b`);
    iterated to the fixpoint.  `avoid` / `avoid_edges` restrict the result, not the evaluation."""
    d = describer(F, body)
    brs = branches(F, body)
    lit = {'0': False, 'false': False, '1': True, 'true': True}
    cut = set()
    while True:
        reach = body.reachable_from(0, avoid_edges=cut)
        new = set(cut)
        for br in brs:
            if br.bb not in reach:
                continue
            keep = None
            if br.desc[0] == 'discr':
                allowed = discr_values(br.desc[1])
                if allowed is not None:
                    keep = {br.target(v) for v in allowed}
            else:
                t = body.blocks[br.bb]['t']
                vals = set()
                for kind, x, neg, dbb in _bool_sources(F, body, t[1], br.bb, term_idx(body, br.bb)):
                    if dbb not in reach:
                        continue
                    v = lit.get(str(x).lower()) if kind == 'const' else (call_value(d.call_desc(x, 0)) if kind == 'call' else None)
                    vals.add(None if v is None else (v != neg))
                if len(vals) == 1 and None not in vals:
                    keep = {br.target(1 if vals.pop() else 0)}
            if keep is not None:
                new |= {(br.bb, x) for _, x in br.edges if x not in keep}
        if new == cut:
            return body.reachable_from(0, avoid=avoid, avoid_edges=cut | set(avoid_edges))
        cut = new


def _verdict_of_site(F, body, br, c):
    """The switch `br` tests a bool local that IS the result of call site c whenever c was executed: every reaching
    definition is c's result (one polarity) or the literal that reads `false` under that polarity, assigned in a block
    that cannot be reached once c has returned (so after c the local always holds c's verdict).
    Returns the polarity (True = operand is the negated result), None when br is not such a test."""
    t = body.blocks[br.bb]['t']
    if t[0] != 'switch':
        return None
    srcs = _bool_sources(F, body, t[1], br.bb, term_idx(body, br.bb))
    pols = {neg for k, x, neg, _ in srcs if k == 'call' and x.bb == c.bb and x.f == c.f}
    if len(pols) != 1:
        return None
    pol = pols.pop()
    after = body.reachable_from(c.t) if c.t is not None else set()
    for k, x, neg, dbb in srcs:
        if k == 'call' and x.bb == c.bb and x.f == c.f:
            continue
        if k != 'const' or dbb in after:
            return None
        val = {'0': False, 'false': False, '1': True, 'true': True}.get(x.lower())
        if val is None or (val != neg) != pol:      # the operand must read `not duplicate` on this alternative
            return None
    return pol


_ERR_PRESERVING_SAME_PAYLOAD = ('Result::map_err', 'Result::inspect', 'Result::inspect_err')


def _is_call_site(d, c):
    return d[0] == 'call' and len(d) > 4 and d[4] == c.bb and short(c.f) == d[1]


def _is_ok_of(x, c):
    """x IS `(<result of call site c> as Ok).0`"""
    return x[0] == 'field' and x[2] == '0' and x[1][0] == 'variant' and x[1][2] == 'Ok' and _is_call_site(x[1][1], c)


def _closure_body(F, d):
    if d[0] == 'agg' and d[1] == 'closure':
        cbs = [b for b in F.bodies.values() if b.canon == d[2] and b.kind == 'closure']
        if len(cbs) == 1:
            return cbs[0]
    return None


def _subst(d, f):
    r = f(d)
    if r is not None:
        return r
    return tuple(_subst(x, f) if isinstance(x, tuple) else x for x in d)


def _ok_payloads(F, R, c):
    """R describes a Result.  Returns the descriptors of its Ok payload (one per alternative that can be Ok) provided
    every alternative is Ok ONLY when call site c returned Ok: c's Result itself, Err-preserving combinators over it,
    or an `Ok(..)` literal whose payload is / directly holds `(c as Ok).0` (readable only past c's Ok edge).
    None as soon as one alternative can be Ok otherwise; [] when no alternative can be Ok at all."""
    outs = []
    for alt in flat(R):
        p = _ok_payload1(F, alt, c)
        if p is None:
            return None
        outs.extend(p)
    return outs


def _ok_payload1(F, alt, c):
    if alt[0] == 'agg' and alt[1] == 'adt' and alt[2].endswith('Result::Err'):
        return []
    if alt[0] == 'agg' and alt[1] == 'adt' and alt[2].endswith('Result::Ok') and len(alt[3]) == 1:
        pay = alt[3][0]
        if _is_ok_of(pay, c) or (pay[0] == 'agg' and pay[1] == 'tuple' and any(_is_ok_of(e, c) for e in pay[3])):
            return [pay]
        return None
    if _is_call_site(alt, c):
        return [('field', ('variant', alt, 'Ok'), '0')]
    if alt[0] == 'call' and alt[3]:
        if alt[1] in _ERR_PRESERVING_SAME_PAYLOAD:
            return _ok_payloads(F, alt[3][0], c)
        if alt[1] in ('Result::map', 'Result::and_then'):
            inner = _ok_payloads(F, alt[3][0], c)
            if inner is None:
                return None
            cb = _closure_body(F, alt[3][1]) if len(alt[3]) == 2 and alt[1] == 'Result::map' else None
            if cb is None:
                return [('field', ('variant', alt, 'Ok'), '0')] if inner else []   # Err-preserving, payload opaque
            captured = alt[3][1][3]
            outs = []
            for ip in inner:
                for _, rd in ret_descs(F, cb):
                    outs.append(_subst(rd, lambda x: ip if x[0] == 'param' and x[1] == 2 else
                                       (captured[0] if x[0] == 'upvar' and len(captured) == 1 else None)))
            return outs
    return None


def _from_decrypt(F, ad, dec, k):
    """ad IS element k of the Ok payload `(packet, number)` of a Result that is Ok only when a decrypt_packet site
    returned Ok; element 1 is exactly the number that site returned, element 0 exactly the packet it was given."""
    if not (ad[0] == 'field' and ad[2] == str(k) and ad[1][0] == 'field' and ad[1][2] == '0' and ad[1][1][0] == 'variant' and ad[1][1][2] == 'Ok'):
        return False
    R = ad[1][1][1]
    for c in dec:
        pays = _ok_payloads(F, R, c)
        if not pays:
            continue
        given = arg_desc(F, c, 2)
        if all(p[0] == 'agg' and p[1] == 'tuple' and len(p[3]) == 2 and (_is_ok_of(p[3][1], c) if k == 1 else p[3][0] == given) for p in pays):
            return True
    return False


def _err_edge_skips(ctx, rule, instance, body, call, sites):
    F = ctx.facts
    found = False
    for br in branches(F, body):
        if br.desc[0] == 'discr' and contains_site(br.desc[1], call) and br.desc[1][0] == 'call':
            found = True
            t_err = br.target(1)
            bad = [s for s in sites if s in body.reachable_from(t_err)]
            ctx.check(not bad, rule, instance, body, call.where(), 'error edge of %s skips %d protected site(s)' % (short(call.f), len(sites)),
                      'on the error edge of %s protected blocks %s are reachable' % (short(call.f), bad))
    if not found:
        ctx.bad(rule, instance + '/result_not_checked', body, call.where(), 'the Result of %s is not branched on' % short(call.f))


def _err_target_of(br, c):
    """br tests the Result discriminant of call site c: `c.is_err()`, `c.is_ok()` (either negated), or a read of the
    discriminant itself (`if let Err(_) = c`, `match c`, `c?`).  Returns the block entered when c returned Err, else None."""
    inner, neg = peel_not(br.desc)
    if inner[0] == 'call' and inner[1] in ('Result::is_err', 'Result::is_ok') and len(inner[3]) == 1 and _is_call_site(inner[3][0], c):
        err_when = (inner[1] == 'Result::is_err') != neg        # value of the switch operand when c returned Err
        return br.target(1 if err_when else 0)
    if not neg and inner[0] == 'discr' and _is_call_site(inner[1], c):
        return br.target(STD_VARIANTS['Result']['Err'])
    return None


def rule_b(ctx):
    F = ctx.facts
    who_may_call(ctx, 'b', 'handle_first_packet_callers', ['Connection::handle_first_packet'], ['Endpoint::accept'], floor=1)
    ac = ctx.pfn('Endpoint::accept')
    hs = ac.calls_to('Connection::handle_first_packet')
    decs = ac.calls_to('PacketKey::decrypt')
    ctx.floor('b', 'accept_decrypt_sites', len(decs), 1)
    for s in hs:
        p = must_precede(F, ac, s.bb, ['PacketKey::decrypt'], depth=0)
        ctx.check(p is None, 'b', 'first_packet_decrypted_before_handling', ac, s.where(), 'dominated by PacketKey::decrypt', 'handle_first_packet reachable without decrypting the Initial')
    for c in decs:
        ok, found = True, False
        for br in branches(F, ac):
            t_err = _err_target_of(br, c)
            if t_err is not None:
                found = True
                ok = ok and all(s.bb not in ac.reachable_from(t_err) for s in hs) and all(x.bb not in ac.reachable_from(t_err) for x in ac.calls_to('Endpoint::add_connection'))
        ok = ok and found
        ctx.check(ok, 'b', 'authentication_failure_creates_no_connection', ac, c.where(), 'Err edge of decrypt reaches neither add_connection nor handle_first_packet', 'an Initial that fails authentication can still create/drive a connection')
    hf = ctx.pfn('Endpoint::handle_first_packet')
    nc = [c for c in constructions(F, 'DatagramEvent', 'NewConnection', crate='quinn_proto')]
    rb = hf.calls_to('Packet::reserved_bits_valid')
    ok = bool(nc) and bool(rb) and all(any(hf.dominates(r.bb, c.bb) for r in rb) for c in nc)
    for r in rb:
        for br in branches(F, hf):
            inner, neg = peel_not(br.desc)
            if contains_site(inner, r):
                t_bad = br.target(1 if neg else 0)
                if any(c.bb in hf.reachable_from(t_bad) for c in nc):
                    ok = False
    ctx.check(ok, 'b', 'reserved_bits_checked_before_new_connection', hf, hf.where(), 'reserved_bits_valid() dominates NewConnection', 'a first packet with invalid reserved bits can create an Incoming')


def rule_c(ctx):
    F = ctx.facts
    uh = ctx.pfn('packet_crypto::unprotect_header')
    d = describer(F, uh)
    cons = [c for c in constructions(F, 'UnprotectHeaderResult', 'UnprotectHeaderResult', crate='quinn_proto')]
    ctx.floor('c', 'unprotect_results', len(cons), 2)
    # length test and token comparison exist
    lt = guard_edges(ctx, uh, lambda o, a, b: o == 'Le' and D.has_const(a, named='RESET_TOKEN_SIZE') and D.has_call(b, 'BytesMut::len') | ('len' in D.render(b)), offsets=[('Add', '5')])
    ctx.check(bool(lt), 'c', 'reset_needs_min_length', uh, uh.where(), 'len >= RESET_TOKEN_SIZE + 5', 'the stateless-reset test lost its minimum-length condition')
    for br, truth, tgt in lt:
        rel = relation_on(br.desc, truth)
        ctx.check(D.has_const(rel[1], 5), 'c', 'reset_min_length_constant', uh, br.where(), D.render(rel[1]), 'minimum reset length is not RESET_TOKEN_SIZE + 5')
    okeq = False
    for dd in local_defs_desc(ctx, uh, 'stateless_reset'):
        for x in flat(dd):
            if x[0] == 'bin' and x[1] == 'Eq' and D.has_param(x, name='stateless_reset_token'):
                other = x[3] if D.has_param(x[2], name='stateless_reset_token') else x[2]
                r = D.render(other)
                tok = x[2] if D.has_param(x[2], name='stateless_reset_token') else x[3]
                okeq = 'RangeFrom' in r and D.has_const(other, named='RESET_TOKEN_SIZE') and 'Sub' in r and 'len' in r
                # whole token against the whole trailing slice: no further slicing / mapping on either side
                okeq = okeq and not D.calls_in(tok) and sum(1 for n in walk(other) if n[0] == 'call' and n[1].endswith('::index')) == 1 and 'RangeTo' not in r
    ctx.check(okeq, 'c', 'reset_compares_full_trailing_token', uh, uh.where(), 'token == packet[len - RESET_TOKEN_SIZE..]', 'the stateless reset token is not compared against the last RESET_TOKEN_SIZE bytes')
    # stateless_reset: true literal only where the local flag is used
    for c in cons:
        v = d.operand(c.field_op('stateless_reset'), c.bb, c.idx)
        pk = d.operand(c.field_op('packet'), c.bb, c.idx)
        if pk[0] == 'agg' and pk[2].endswith('None'):
            # Err(_) if stateless_reset arm: reachable only on the flag's true edge
            fl = [br for br in branches(F, uh, stop_named=True) if peel_not(br.desc)[0][0] == 'local' and peel_not(br.desc)[0][2] == 'stateless_reset']
            ok = bool(fl) and all(edge_dominates(uh, br.bb, br.target(1), c.bb) for br in fl if uh.dominates(br.bb, c.bb))
            ctx.check(ok and any(uh.dominates(br.bb, c.bb) for br in fl), 'c', 'undecodable_packet_reset_only_with_token', uh, c.where(), 'packet: None only on stateless_reset == true', 'an undecodable packet is reported as reset without a matching token')
    hp = ctx.pfn('Connection::handle_packet')
    rs = [c for c in constructions(F, 'ConnectionError', 'Reset', crate='quinn_proto') if F.root_of(c.body).id == hp.id]
    fl = [br for br in branches(F, hp) if peel_not(br.desc)[0][0] == 'param' and peel_not(br.desc)[0][2] == 'stateless_reset']
    ok = bool(rs) and bool(fl) and all(any(edge_dominates(hp, br.bb, br.target(1), c.bb) for br in fl) for c in rs)
    ctx.check(ok, 'c', 'reset_error_only_when_flag_set', hp, hp.where(), 'ConnectionError::Reset only on stateless_reset == true', 'ConnectionError::Reset can be produced without the stateless-reset flag')
    who_may_construct(ctx, 'c', 'reset_error_sites', 'ConnectionError', 'Reset', ['Connection::handle_packet', '<ConnectionError as From>::from'], floor=1)
    # endpoint lookup order
    g = ctx.pfn('ConnectionIndex::get')
    rt = g.calls_to('ResetTokenTable::get')
    gets = g.calls_to('HashMap::get')
    ctx.check(len(rt) == 1 and len(gets) >= 4, 'c', 'reset_token_lookup_sites', g, g.where(), '%d map lookups, %d reset-token lookup' % (len(gets), len(rt)), 'ConnectionIndex::get lookup structure changed')
    for r in rt:
        # every return with Some(..) from a map hit happens before the reset token lookup: the reset lookup is reachable only from the miss edges
        okm = True
        for c in gets:
            for br in branches(F, g):
                if br.desc[0] == 'discr' and contains_site(br.desc[1], c):
                    if r.bb in g.reachable_from(br.target(1)):
                        okm = False
        ctx.check(okm, 'c', 'reset_tokens_consulted_last', g, r.where(), 'reset-token lookup unreachable from any CID/tuple hit edge', 'reset tokens are consulted although a CID/tuple lookup hit')
    # CidQueue::insert returns the reset token of the CID that becomes active (not of the frame's CID)
    ci = ctx.pfn('CidQueue::insert')
    rd = [x for _, x in ret_descs(F, ci)]
    bad = [x for x in rd if D.has_field(x, 'reset_token') and D.has_param(_token_part(x), name='cid') and not D.has_field(_token_part(x), 'buffer')]
    ctx.check(not bad, 'c', 'active_reset_token_follows_active_cid', ci, ci.where(), 'returned token comes from the queue slot that becomes active',
              'CidQueue::insert returns the reset token of the inserted frame instead of the CID that becomes active: ' + D.render(bad[0])[:200] if bad else '')


def _token_part(x):
    # find the subtree yielding the reset token in an Ok(Some((range, token))) descriptor
    best = x
    for n in walk(x):
        if n[0] == 'field' and n[2] in ('reset_token', '1'):
            best = n
            break
    return best


# --------------------------------------------------------------------------
# verdicts kept in a bool local (rule d; also used by C14.d)
# --------------------------------------------------------------------------

_LIT = {'0': False, 'false': False, '1': True, 'true': True}


def _whole_local(op):
    """index of the local an operand copies / moves as a whole, else None"""
    return op[1][0] if op[0] in ('c', 'm') and not op[1][1] else None


def reach_tracking_bools(F, body, start, avoid=(), avoid_edges=()):
    """Blocks reachable from block `start` (entered with nothing known) when the value of every bool local that was
    assigned a literal on the way (or a copy / `!` of such a local) is remembered, and a switch on a remembered local
    only takes the edge that value selects.  `let invalid = a || b || !c; if invalid {..}` lowers to `a -> invalid = true
    -> JOIN; .. ; JOIN: switch invalid`: from the true edge of `a` only the true edge of the JOIN switch is taken, as
    in `if a || b || !c {..}`.  A local whose address is taken mutably is never remembered; any other store to a local,
    a call result stored in it, or the end of its storage forgets it.  Always a subset of body.reachable_from(start,
    avoid, avoid_edges)."""
    avoid = set(avoid)
    never = describer(F, body).mut_borrowed
    seen, out = set(), set()
    stack = [(start, frozenset())]
    while stack:
        bb, env = stack.pop()
        if bb in avoid or (bb, env) in seen:
            continue
        seen.add((bb, env))
        if len(seen) > 40000:
            return body.reachable_from(start, avoid=avoid, avoid_edges=avoid_edges)
        out.add(bb)
        e = dict(env)
        blk = body.blocks[bb]
        for s in blk['s']:
            if s[0] in ('live', 'dead'):
                e.pop(s[1], None)
            elif s[0] == 'sd':
                e.pop(s[1][0], None)
            elif s[0] == '=':
                l, proj = s[1]
                v = None
                if not proj and l not in never:
                    rv = s[2]
                    op, flip = (rv[1], False) if rv[0] == 'use' else ((rv[2], True) if rv[0] == 'un' and rv[1] == 'Not' else (None, False))
                    if op is not None:
                        if op[0] in ('c', 'm'):
                            v = e.get(_whole_local(op))
                        elif len(op) > 3 and op[3] == 'bool':
                            v = _LIT.get(str(op[2]).lower())
                        if v is not None and flip:
                            v = not v
                if v is None:
                    e.pop(l, None)
                else:
                    e[l] = v
        t = blk['t']
        succ = list(body.succ[bb])
        if t[0] == 'call':
            dst = t[1].get('dst')
            if dst:
                e.pop(dst[0], None)
        elif t[0] == 'switch':
            v = e.get(_whole_local(t[1]))
            if v is not None:
                tgt = t[3]
                for val, x in t[2]:
                    if int(val) == int(v):
                        tgt = x
                succ = [tgt] if tgt in succ else succ
        env2 = frozenset(e.items())
        for x in succ:
            if (bb, x) not in avoid_edges:
                stack.append((x, env2))
    return out


def guard_protects_tracking(ctx, rule, instance, body, relpred, sites, what='', offsets=()):
    """guard_protects (P4+edge: every protected block has a dominating guard with the stated relation from whose
    violating edge it is unreachable without re-evaluating the guard), where "unreachable from the violating edge" takes
    into account what the edge stores into a bool local that a later switch tests (reach_tracking_bools)."""
    F = ctx.facts
    edges = guard_edges(ctx, body, relpred, False, offsets=offsets)
    if not edges:
        ctx.bad(rule, instance + '/guard_missing', body, body.where(), '%s: no branch with the required relation found' % what)
        return
    sites = [s for s in sites if s in body.live_blocks()]
    reach, domreach = {}, {}
    bad = []
    for s in sites:
        covered = False
        for br, truth, tgt in edges:
            if not body.dominates(br.bb, s):
                # `a || b` merged into a local: b's block no longer dominates the code behind `if local` in the plain CFG
                # (the edge `a -> local = true -> if local` joins in between), but every path on which the local reads
                # "pass" still runs over b's pass edge
                kd = (br.bb, truth)
                if kd not in domreach:
                    domreach[kd] = reach_tracking_bools(F, body, 0, avoid_edges={(br.bb, br.target(0 if truth else 1))})
                if s in domreach[kd]:
                    continue
            k = (br.bb, tgt)
            if k not in reach:
                reach[k] = body.reachable_from(tgt, avoid=[br.bb])
                if any(x in reach[k] for x in sites):
                    reach[k] = reach_tracking_bools(F, body, tgt, avoid=[br.bb])
            if s not in reach[k]:
                covered = True
        if not covered:
            bad.append(s)
    br0 = edges[0][0]
    ctx.check(not bad, rule, instance, body, br0.where(), '%s: %d protected site(s) only reachable over the pass edge of a dominating guard' % (what, len(sites)),
              '%s: protected site blocks %s are not protected by a dominating guard with this relation' % (what, bad))


def verdict_false_edges(F, body, c):
    """(branch, block entered when call site c returned false) for every switch that tests the bool verdict of c:
    the result itself (`if !c(..)`, `if c(..)`), or a bool local into which the result (or its negation) is merged with
    literals that all select the same edge as `c returned false` does — `let invalid = a || b || !c(..); if invalid`
    (true | true | !c: the literal alternatives read "invalid"), `let ok = a && b && c(..); if !ok`.  A literal that selects
    the other edge would let the protected code run without the verdict: such a switch is not a test of the verdict."""
    out = []
    for br in branches(F, body):
        inner, neg = peel_not(br.desc)
        t = body.blocks[br.bb]['t']
        if t[0] != 'switch':
            continue
        if inner[0] == 'call' and is_site(inner, c):
            out.append((br, br.target(1 if neg else 0)))
            continue
        srcs = _bool_sources(F, body, t[1], br.bb, term_idx(body, br.bb))
        pols = {n for k, x, n, _ in srcs if k == 'call' and x.bb == c.bb and x.f == c.f}
        if len(pols) != 1:
            continue
        bad_val = False != pols.pop()           # value of the switch operand when c returned false
        okc = True
        for k, x, n, _ in srcs:
            if k == 'call' and x.bb == c.bb and x.f == c.f:
                continue
            v = _LIT.get(str(x).lower()) if k == 'const' else None
            if v is None or (v != n) != bad_val:
                okc = False
        if okc:
            out.append((br, br.target(1 if bad_val else 0)))
    return out


def retry_tag_check_points(F, body, valid):
    """blocks behind which the Retry integrity tag has been evaluated: the is_valid_retry call sites and the switches
    testing their verdict (verdict_false_edges)"""
    pts = {v.bb for v in valid}
    for v in valid:
        pts |= {br.bb for br, _ in verdict_false_edges(F, body, v)}
    return pts


def edges_where_relation(F, body, relpred):
    """(branch, target) of every branch edge on which a relation satisfying relpred(op, a, b) certainly holds: the switch
    operand is the comparison, or a bool merging the comparison with literals that cannot take this edge
    (`let listed = match t { Ok(v) => a == v, Err(_) => false }; if listed`)"""
    out = []
    for br in branches(F, body):
        inner, neg = peel_not(br.desc)
        for truth in (True, False):
            val = truth != neg
            alts = [a for a in flat(inner) if not (a[0] == 'const' and _LIT.get(str(a[2]).lower()) == (not val))]
            rels = [relation_on(a, val) for a in alts]
            if alts and all(r is not None and relpred(*r) for r in rels):
                out.append((br, br.target(1 if truth else 0)))
    return out


def _is_payload_chunks(x):
    """exactly packet.payload.chunks(4), no adapter in between"""
    return x[0] == 'call' and x[1] == '[T]::chunks' and len(x[3]) == 2 and _int_is(x[3][1], 4) \
        and x[3][0][0] == 'field' and x[3][0][2] == 'payload' and x[3][0][1][0] == 'param' and x[3][0][1][2] == 'packet'


def _chunk_of_scan(x):
    """x is the loop variable of a scan over packet.payload.chunks(4): (<Chunks as Iterator>::next(chunks) as Some).0"""
    return x[0] == 'field' and x[2] == '0' and x[1][0] == 'variant' and x[1][2] == 'Some' and x[1][1][0] == 'call' \
        and x[1][1][1].endswith('Iterator>::next') and len(x[1][1][3]) == 1 and _is_payload_chunks(x[1][1][3][0])


def _listed_version_of_chunk(x):
    """u32::from_be_bytes((<[u8; 4]>::try_from(chunk) as Ok).0) for the chunk at hand"""
    if not (x[0] == 'call' and x[1] == 'u32::from_be_bytes' and len(x[3]) == 1):
        return False
    y = x[3][0]
    return y[0] == 'field' and y[2] == '0' and y[1][0] == 'variant' and y[1][2] == 'Ok' and y[1][1][0] == 'call' \
        and y[1][1][1].endswith('TryFrom>::try_from') and len(y[1][1][3]) == 1 and _chunk_of_scan(y[1][1][3][0])


def _vn_scan_loop_ok(F, body, vm):
    """Version Negotiation, explicit loop: (i) a branch compares self.version with the version decoded from the chunk at
    hand, and VersionMismatch is unreachable from its equal edge; (ii) VersionMismatch lies behind the None edge of the
    scan's `next()` (all chunks were looked at); (iii) inside the loop every chunk reaches that comparison: from the Some
    edge neither the next iteration, nor VersionMismatch, nor a return is reachable without passing the comparison,
    except over the Err edge of the chunk's try_from (a chunk shorter than 4 bytes lists no version)."""
    own = lambda x: x[0] == 'field' and x[2] == 'version' and x[1][0] == 'param' and x[1][1] == 1
    eq = edges_where_relation(F, body, lambda o, a, b: o == 'Eq' and ((own(a) and _listed_version_of_chunk(b)) or (own(b) and _listed_version_of_chunk(a))))
    if not eq or not vm:
        return False
    if any(v in reach_tracking_bools(F, body, tgt) for br, tgt in eq for v in vm):
        return False
    nxt = [br for br in branches(F, body) if br.desc[0] == 'discr' and br.desc[1][0] == 'call' and br.desc[1][1].endswith('Iterator>::next')
           and len(br.desc[1][3]) == 1 and _is_payload_chunks(br.desc[1][3][0])]
    if len(nxt) != 1:
        return False
    nb = nxt[0]
    t_none, t_some = nb.target(STD_VARIANTS['Option']['None']), nb.target(STD_VARIANTS['Option']['Some'])
    if t_none is None or t_some is None or t_none == t_some:
        return False
    if not all(edge_dominates(body, nb.bb, t_none, v) for v in vm):
        return False
    if not all(edge_dominates(body, nb.bb, t_some, br.bb) for br, _ in eq):
        return False
    err_edges = set()
    for br in branches(F, body):
        if br.desc[0] == 'discr' and br.desc[1][0] == 'call' and br.desc[1][1].endswith('TryFrom>::try_from') and len(br.desc[1][3]) == 1 and _chunk_of_scan(br.desc[1][3][0]):
            err_edges.add((br.bb, br.target(STD_VARIANTS['Result']['Err'])))
    skip = body.reachable_from(t_some, avoid={br.bb for br, _ in eq}, avoid_edges=err_edges)
    goals = set(vm) | set(body.return_blocks()) | {nb.bb}
    return not (skip & goals)


def rule_d(ctx):
    F = ctx.facts
    pdp = ctx.pfn('Connection::process_decrypted_packet')
    d = describer(F, pdp)
    st = [w for w in field_writes(F, 'Connection', 'retry_src_cid', crate='quinn_proto') if F.root_of(w.body).id == pdp.id and w.kind == 'assign']
    upd = pdp.calls_to('CidQueue::update_initial_cid')
    valid = pdp.calls_to('Session::is_valid_retry')
    ctx.floor('d', 'retry_state_change_sites', len(st), 1)
    ctx.floor('d', 'retry_tag_check_sites', len(valid), 1)
    prot = [w.bb for w in st]
    # the update_initial_cid call of the Retry arm: the one whose block is dominated by the is_valid_retry call
    # (or by the switch that tests its verdict kept in a bool local: `let invalid = .. || !is_valid_retry(..); if invalid`)
    checked = retry_tag_check_points(F, pdp, valid)
    prot += [c.bb for c in upd if any(pdp.dominates(x, c.bb) for x in checked)]
    prot += [c.bb for c in pdp.calls_to('StreamsState::retransmit_all_for_0rtt')]
    # counting the Retry as an authenticated packet (counter, idle timer, keep-alive) is a state change like the others:
    # EVERY on_packet_authenticated site of process_decrypted_packet must lie behind the gate, the token-length test, the
    # integrity tag and the client test — "no count of an unprotected packet before it was validated"
    cnt = pdp.calls_to('Connection::on_packet_authenticated')
    ctx.floor('d', 'accepted_retry_count_sites', len(cnt), 1)
    prot += [c.bb for c in cnt]
    # the gate constant agrees with the counting site: the packet at hand is NOT yet counted when the gate is evaluated
    # (handle_packet does not count unprotected packets: d/every_processed_packet_is_counted_unprotected_not_counted_before_validation;
    # the count sites of this function lie behind the gate), so "no other packet of the server was accepted" reads
    # total_authed_packets == 0, and the violating relation is `0 < n` (`1 <= n`, `n != 0`)
    # the guards may keep their joint verdict in a bool local (`let invalid = a > 0 || len <= 16 || !valid; if invalid`,
    # `let acceptable = a == 0 && 16 < len && valid; if !acceptable`): guard_protects_tracking follows the literal stored on a
    # guard's violating edge to the switch that tests the local
    guard_protects_tracking(ctx, 'd', 'retry_only_before_other_server_packets', pdp, _some_packet_counted, prot, what='total_authed_packets > 0')
    guard_protects_tracking(ctx, 'd', 'retry_needs_token', pdp, lambda o, a, b: o == 'Le' and D.has_const(b, 16) and 'len' in D.render(a), prot, what='payload.len() <= 16')
    # an accepted Retry counts itself, so that a second Retry (or a Version Negotiation) after it meets a closed gate
    # ("restarts the handshake once"): every Retry state change is dominated by, or always followed by, a counting site
    for w in st:
        okc = any(pdp.dominates(c.bb, w.bb) for c in cnt) or (bool(cnt) and path_avoiding(pdp, pdp.succ[w.bb], pdp.return_blocks(), {c.bb for c in cnt}) is None)
        ctx.check(okc, 'd', 'accepted_retry_counts_itself', pdp, w.where(), 'on_packet_authenticated on every path that follows the Retry',
                  'a Retry can be followed (retry_src_cid recorded) without being counted in total_authed_packets: a second Retry / a Version Negotiation after it would still pass the `total_authed_packets > 0` gates')
    for c in cnt:
        num = arg_desc(F, c, 4)
        ctx.check(num[0] == 'agg' and num[2].endswith('Option::None'), 'd', 'accepted_retry_records_no_packet_number', pdp, c.where(), 'packet number argument is None',
                  'the Retry arm hands on_packet_authenticated a packet number (%s): a Retry has none, and a number recorded here was never checked against Dedup' % D.render(num)[:80])
    for c in valid:
        ok, found = True, False
        for br, t_bad in verdict_false_edges(F, pdp, c):
            found = True
            ok = ok and all(p not in pdp.reachable_from(t_bad, avoid=[br.bb]) for p in prot) and all(pdp.dominates(br.bb, p) for p in prot)
        ok = ok and found
        ctx.check(ok, 'd', 'retry_needs_valid_integrity_tag', pdp, c.where(), 'is_valid_retry false edge reaches no Retry state change', 'Retry state changes are reachable without a valid integrity tag')
    srv = [br for br in branches(F, pdp) if br.desc[0] == 'call' and br.desc[1] == 'ConnectionSide::is_server']
    ok = any(all(p not in pdp.reachable_from(br.target(1), avoid=[br.bb]) for p in prot) and all(pdp.dominates(br.bb, p) for p in prot) for br in srv)
    ctx.check(ok, 'd', 'retry_only_for_clients', pdp, pdp.where(), 'is_server edge reaches no Retry state change', 'a server can act on a Retry packet')
    # Version negotiation
    vm = [c for c in constructions(F, 'ConnectionError', 'VersionMismatch', crate='quinn_proto') if F.root_of(c.body).id == pdp.id]
    ctx.floor('d', 'version_mismatch_sites', len(vm), 1)
    guard_protects(ctx, 'd', 'vn_only_before_other_server_packets', pdp, _some_packet_counted, [c.bb for c in vm], what='total_authed_packets > 0', need_dom=False)
    sup = [br for br in branches(F, pdp, stop_named=True) if peel_not(br.desc)[0][0] == 'local' and peel_not(br.desc)[0][2] == 'supported']
    ok = bool(sup) and all(all(c.bb not in pdp.reachable_from(br.target(1)) for c in vm) for br in sup)
    # the same scan spelled as a loop: `for x in packet.payload.chunks(4) { if <x is self.version> { return Ok(()) } }`
    how = 'supported == true edge never reaches VersionMismatch'
    if not ok:
        ok = _vn_scan_loop_ok(F, pdp, [c.bb for c in vm])
        how = 'every 4-byte chunk of the payload is compared with self.version; the equal edge never reaches VersionMismatch, which lies behind the exhausted scan'
    ctx.check(ok, 'd', 'vn_ignored_when_own_version_listed', pdp, pdp.where(), how, 'a Version Negotiation listing our version can end the connection')
    # every call of on_packet_authenticated (numbered packet or accepted Retry) counts: total_authed_packets += 1 is unconditional at its top
    opa = ctx.pfn('Connection::on_packet_authenticated')
    inc = [(w, v) for w, v in store_values(ctx, 'Connection', 'total_authed_packets', in_fn=opa)]
    ok = bool(inc) and all(v[0] == 'bin' and v[1] == 'Add' and D.has_const(v, 1) for w, v in inc)
    ok = ok and all(path_avoiding(opa, [0], opa.return_blocks(), {w.bb}) is None for w, v in inc)
    ctx.check(ok, 'd', 'every_authenticated_packet_counts_itself', opa, opa.where(), 'total_authed_packets += 1 on every path (before the `packet?` early return)',
              'on_packet_authenticated no longer counts unnumbered packets (an accepted Retry): the `total_authed_packets > 0` gates then stay open after it')
    who_may_write(ctx, 'd', 'total_authed_packets_writers', 'Connection', 'total_authed_packets', ['Connection::on_packet_authenticated', 'Connection::new'], floor=1)


def _int_is(x, n):
    return x[0] == 'const' and x[1] == 'int' and str(x[2]).split('_')[0] == str(n)


def _some_packet_counted(o, a, b):
    """the relation says that a packet was counted before the one at hand (which is not counted yet when the Retry /
    Version Negotiation gates are evaluated): self.total_authed_packets exceeds 0 — `0 < n`, `1 <= n` or `n != 0`"""
    n = lambda x: x[0] == 'field' and x[2] == 'total_authed_packets' and x[1][0] == 'param' and x[1][1] == 1
    return (o == 'Lt' and _int_is(a, 0) and n(b)) or (o == 'Le' and _int_is(a, 1) and n(b)) or (o == 'Ne' and ((_int_is(a, 0) and n(b)) or (_int_is(b, 0) and n(a))))


def _is_mut_conn_ty(ty):
    return isinstance(ty, str) and ty.startswith('&mut ') and ty[5:].endswith('connection::Connection')


def _passes_mut_conn(body, c):
    return any(a[0] in ('c', 'm') and not a[1][1] and _is_mut_conn_ty(body.local_ty(a[1][0])) for a in c.args)


def _conn_place_field(place):
    fs = [e[1] for e in place[1] if isinstance(e, list) and e[0] == 'f' and e[2].endswith('connection::Connection')]
    return fs[0] if fs else None


_DW = __import__('engine.facts', fromlist=['register_memo']).register_memo({})


def _direct_conn_writes(F, fn):
    """(Connection fields stored to / mutably borrowed / receiving a call result in fn and its closures,
        workspace callees fn forwards a `&mut Connection` to, markers for unknown callees receiving one)"""
    k = (F.uid, fn.id)
    if k in _DW:
        return _DW[k]
    fields, fwd, unknown = set(), [], set()
    for b in F.family(fn) if fn.kind == 'fn' else [fn]:
        live = b.live_blocks()
        for i, j, s in b.stmts():
            if i not in live or s[0] not in ('=', 'sd'):
                continue
            f = _conn_place_field(s[1])
            if f:
                fields.add(f)
            if s[0] == '=' and ((s[2][0] == 'ref' and s[2][1]) or (s[2][0] == 'ptr' and 'Mut' in str(s[2][1]))):
                f = _conn_place_field(s[2][2])
                if f:
                    fields.add(f)
        for c in b.calls():
            if c.bb not in live or is_noise(c):
                continue
            f = _conn_place_field(c.dst) if c.dst else None
            if f:
                fields.add(f)
            if _passes_mut_conn(b, c):
                if c.k in ('item', 'closurecall') and c.f in F.bodies:
                    fwd.append(F.bodies[c.f])
                else:
                    unknown.add('<unknown callee %s>' % short(c.f or c.df or '?'))
    _DW[k] = (fields, fwd, unknown)
    return _DW[k]


def _conn_fields_written_by(F, call):
    """Connection fields the callee of `call` (handed `&mut Connection`) may write, transitively"""
    if not (call.k in ('item', 'closurecall') and call.f in F.bodies):
        return {'<unknown callee %s>' % short(call.f or call.df or '?')}
    out, seen, stack = set(), set(), [F.bodies[call.f]]
    while stack:
        fn = stack.pop()
        if fn.id in seen:
            continue
        seen.add(fn.id)
        fields, fwd, unknown = _direct_conn_writes(F, fn)
        out |= fields | unknown
        stack.extend(fwd)
    return out


def rule_e(ctx):
    F = ctx.facts
    hp = ctx.pfn('Connection::handle_packet')
    dec = hp.calls_to('Connection::decrypt_packet')
    af = [w for w in field_writes(F, 'Connection', 'authentication_failures', crate='quinn_proto') if F.root_of(w.body).id == hp.id and w.kind == 'assign']
    ctx.floor('e', 'authentication_failure_counter', len(af), 1)
    err_store = [w.bb for w in field_writes(F, 'Connection', 'error', crate='quinn_proto') if F.root_of(w.body).id == hp.id]
    state_store = [w.bb for w in field_writes(F, 'Connection', 'state', crate='quinn_proto') if F.root_of(w.body).id == hp.id]
    for w in af:
        limit = {c.bb for c in hp.calls() if c.is_('transport_error::Error::AEAD_LIMIT_REACHED')}
        region = hp.reachable_from(w.bb, avoid=set(err_store) | limit)
        # only blocks that can reach a return without passing the error-state code
        ctx.check(bool(limit), 'e', 'integrity_limit_exit_present', hp, w.where(), 'AEAD_LIMIT_REACHED exit found', 'integrity limit handling is gone')
        bad = []
        for i, j, s in hp.stmts():
            if i not in region or s[0] != '=':
                continue
            pl, rv = s[1], s[2]
            fields = [e[1] for e in pl[1] if isinstance(e, list) and e[0] == 'f' and e[2].endswith('connection::Connection')]
            if fields and fields[0] not in ('authentication_failures', 'stats'):
                bad.append((fields[0], s[3]))
            if rv[0] == 'ref' and rv[1]:
                f2 = [e[1] for e in rv[2][1] if isinstance(e, list) and e[0] == 'f' and e[2].endswith('connection::Connection')]
                if f2 and f2[0] not in ('authentication_failures', 'stats'):
                    bad.append((f2[0] + '(&mut)', s[3]))
        # state changes made through a callee that is handed `&mut Connection`: its transitive field writes count too
        for c in hp.calls():
            if c.bb not in region or is_noise(c) or not _passes_mut_conn(hp, c):
                continue
            for f in sorted(_conn_fields_written_by(F, c) - {'authentication_failures', 'stats'}):
                bad.append(('%s (via %s)' % (f, short(c.f)), c.line))
        ctx.check(not bad, 'e', 'failed_authentication_touches_only_counters', hp, w.where(), 'writes on the silent-drop path limited to authentication_failures/stats (%d blocks)' % len(region),
                  'the failed-authentication path writes connection state: %s' % bad[:4])


def rule_f(ctx):
    F = ctx.facts
    b = ctx.pfn('packet_crypto::decrypt_packet_body')
    oks = [c.bb for c in constructions(F, 'DecryptPacketResult', 'DecryptPacketResult', crate='quinn_proto')]
    guard_error(ctx, 'f', 'key_update_needs_higher_packet_number', b, lambda o, a, c: o == 'Le' and D.has_field(c, 'rx_packet') and (D.has_call(a, 'PacketNumber::expand') or 'number' in D.render(a)),
                code='KEY_UPDATE_ERROR', protect=oks, what='number <= rx_packet',
                offsets=[('Add', '1')])   # `number` is expand(rx_packet + 1, ..): the +1 is inside the packet-number expansion
    # the test "a previous key update is still unacknowledged": prev_crypto.is_some_and(|x| x.update_unacked) (the closure
    # body is resolved: it must return exactly the field, polarity tracked) or a direct test of (prev_crypto as Some).0.update_unacked
    eff = err_code_calls(ctx, b, 'KEY_UPDATE_ERROR')
    ok, found = True, False
    for br in branches(F, b):
        inner, neg = peel_not(br.desc)
        pol = _unacked_test(F, inner)
        if pol is None:
            continue
        found = True
        tgt = br.target(1 if (pol != neg) else 0)    # edge taken when update_unacked is set
        ok = ok and bool(eff) and path_avoiding(b, [tgt], set(b.return_blocks()) | set(oks), eff) is None
    ctx.check(ok and found, 'f', 'key_update_refused_while_previous_unacked', b, b.where(), 'update_unacked -> KEY_UPDATE_ERROR', 'a second remote key update is accepted while the previous one is unacknowledged')
    # both checks only matter under crypto_update; the KEY_UPDATE_ERROR sites are dominated by the crypto_update test
    cu = [br for br in branches(F, b, stop_named=True) if peel_not(br.desc)[0][0] == 'local' and peel_not(br.desc)[0][2] == 'crypto_update']
    ctx.check(bool(cu), 'f', 'key_update_validation_present', b, b.where(), 'if crypto_update {..}', 'the incoming key update validation block is gone')
    # reserved bits
    guard = b.calls_to('Packet::reserved_bits_valid')
    ok = bool(guard)
    for r in guard:
        for br in branches(F, b):
            inner, neg = peel_not(br.desc)
            if contains_site(inner, r):
                t_bad = br.target(1 if neg else 0)
                if any(o in b.reachable_from(t_bad) for o in oks):
                    ok = False
    ctx.check(ok, 'f', 'reserved_bits_rejected', b, b.where(), 'invalid reserved bits never yield a packet', 'packets with reserved bits set are accepted')


def _unacked_test(F, d):
    """d (negations peeled) tests `prev_crypto is Some(x) and x.update_unacked`: returns True when d is true exactly if the
    flag is set, False when d is its negation inside the closure (`|x| !x.update_unacked` is NOT the stated test: reported
    as polarity False so the edge check runs on the edge where the flag IS set), None when d is not such a test."""
    if d[0] == 'field' and d[2] == 'update_unacked' and D.has_param(d[1], name='prev_crypto'):
        return True
    if d[0] == 'call' and d[1] in ('Option::is_some_and', 'Option::map_or') and D.has_param(d[3][0], name='prev_crypto'):
        if d[1] == 'Option::map_or' and not (d[3][1][0] == 'const' and str(d[3][1][2]) in ('false', '0')):
            return None
        cb = _closure_body(F, d[3][-1])
        if cb is None:
            return None
        pols = set()
        for _, rd in ret_descs(F, cb):
            inner, neg = peel_not(rd)
            if not (inner[0] == 'field' and inner[2] == 'update_unacked' and inner[1][0] == 'param'):
                return None
            pols.add(not neg)
        return pols.pop() if len(pols) == 1 else None
    return None


def _is_client_test(F, d):
    """d (a bool or discriminant descriptor, negations peeled) decides the side of THIS connection (self.side): returns
    ('bool', value_when_client) for is_client()/is_server() on self.side (directly or through ConnectionSide::side()),
    ('discr', discriminant of ConnectionSide::Client) for a match on self.side itself, else None"""
    def own_side(x):
        while x[0] == 'call' and x[1] in ('ConnectionSide::side', 'Connection::side') and len(x[3]) == 1:
            x = x[3][0]
        return (x[0] == 'field' and x[2] == 'side' and x[1][0] == 'param' and x[1][1] == 1) or (x[0] == 'param' and x[1] == 1)
    if d[0] == 'call' and len(d[3]) == 1 and own_side(d[3][0]):
        if d[1] in ('ConnectionSide::is_client', 'Side::is_client'):
            return ('bool', True)
        if d[1] in ('ConnectionSide::is_server', 'Side::is_server'):
            return ('bool', False)
    if d[0] == 'discr' and d[1][0] == 'field' and d[1][2] == 'side' and d[1][1][0] == 'param' and d[1][1][1] == 1:
        vs = [v for v in F.adt('connection::ConnectionSide')['variants'] if v['name'] == 'Client']
        if len(vs) == 1:
            return ('discr', int(vs[0]['discr']))
    return None


def _reach_assuming_client_0rtt(F, body, partial):
    """blocks reachable from the entry of `body` for a packet whose partially decoded header `partial` is of type 0-RTT,
    received by a client: branch edges contradicted by `PartialDecode::is_0rtt(partial) == true` or by
    `self.side is Client` are removed (P11 path partition)"""
    def call_value(x):
        if x[0] == 'call' and x[1] == 'PartialDecode::is_0rtt' and len(x[3]) == 1 and x[3][0] == partial:
            return True
        t = _is_client_test(F, x)
        return t[1] if t is not None and t[0] == 'bool' else None

    def discr_values(x):
        t = _is_client_test(F, ('discr', x))
        return {t[1]} if t is not None and t[0] == 'discr' else None
    return reach_assuming(F, body, call_value, discr_values)


def rule_h(ctx):
    """0-RTT packets travel from client to server only, and the 0-RTT keys protect that direction only: a client still
    holds them (it SENDS with them) until the 1-RTT keys arrive, so a 0-RTT packet reflected to the client — its own —
    would decrypt.  "State changes only in response to packets protected with the keys negotiated for that connection"
    therefore needs the client to discard every packet of type 0-RTT before anything is done with it: header-protection
    removal (packet_crypto::unprotect_header picks zero_rtt_crypto for the type alone) and handle_packet (dedup, counters,
    timers, frames) are unreachable for `partial_decode.is_0rtt()` on a client."""
    F = ctx.facts
    n = 0
    for c in F.callers_of('packet_crypto::unprotect_header', crate='quinn_proto'):
        if is_noise(c):
            continue
        b = c.body
        partial = arg_desc(F, c, 0)
        reach = _reach_assuming_client_0rtt(F, b, partial)
        sites = [c] + [x for x in b.calls_to('Connection::handle_packet')]
        n += 1
        bad = [x for x in sites if x.bb in reach]
        ctx.check(not bad, 'h', 'client_discards_0rtt_before_processing', F.root_of(b), c.where(),
                  'unprotect_header / handle_packet unreachable for a 0-RTT packet on a client (%d of %d blocks reachable under that assumption)' % (len(reach), len(b.live_blocks())),
                  'a client can process a packet of type 0-RTT (its own 0-RTT keys would open a reflected copy of what it sent): %s reachable although the packet is 0-RTT and this side is the client'
                  % sorted({short(x.f) for x in bad}))
    ctx.floor('h', 'header_unprotection_sites', n, 1)


def rule_g(ctx):
    F = ctx.facts
    hp = ctx.pfn('Connection::handle_packet')
    sites = hp.calls_to('Connection::process_decrypted_packet')
    brs = [br for br in branches(F, hp) if D.has_field(br.desc, 'expected_token')]
    ok, found = True, False
    for br in brs:
        rel = relation_on(br.desc, True)
        if rel and rel[0] in ('Ne', 'Eq'):
            found = True
            t_mis = br.true_target() if rel[0] == 'Ne' else br.false_target()
            ok = ok and all(s.bb not in hp.reachable_from(t_mis) for s in sites)
    ctx.floor('g', 'processing_sites', len(sites), 1)
    ctx.check(ok and found, 'g', 'initial_with_other_token_discarded', hp, hp.where(), 'token != expected_token edge reaches no processing', 'an Initial carrying a different token than the first one is processed by the server')


def run(ctx):
    from rules.shared_rules import no_fatal_error_before_authentication
    no_fatal_error_before_authentication(ctx, 'a', 'no_fatal_error_before_authentication')
    from rules.shared_rules import every_processed_packet_is_counted
    every_processed_packet_is_counted(ctx, 'd', 'every_processed_packet_is_counted')
    rule_a(ctx)
    rule_b(ctx)
    rule_c(ctx)
    rule_d(ctx)
    rule_e(ctx)
    rule_f(ctx)
    rule_g(ctx)
    rule_h(ctx)
    ctx.assume('crypto::PacketKey / HeaderKey / Session implementations are a component boundary (forgery resistance of the AEAD is not analysed)')
    # obligations shared with a sibling property (evaluated by the owning module, reported here under letter x)
    from engine.rulelib import share as _share
    _share(ctx, 'C17', 'rule_d', 'x', 'parameters remembered for 0-RTT are blanked where they must not be trusted: a stale stateless-reset token would let a token not issued for the CID in use end the connection')

