"""C09 — datagrams reach the right connection; connections are isolated (structural part)."""
from engine.rulelib import *
from engine import desc as D

EXPLANATION = ("Static rules over quinn-proto/quinn MIR: (a) ConnectionIndex::remove purges every routing table and every CID recorded in ConnectionMeta.loc_cids; "
               "(b) who-may-write each routing table; (c) new_cid claims a CID only through a vacant map entry (never overwrites another connection's CID) and loops on "
               "collision; (d) Endpoint::handle takes its routing decision only from ConnectionIndex::get, whose lookup order is CID map -> initial map (Initial/0-RTT "
               "only) -> 4-tuple maps (empty DCID only) -> reset tokens; (e) CID life-cycle agreement: every issued CID is recorded in loc_cids under the sequence number "
               "announced to the peer (add_connection: 0 and 1; send_new_identifiers: cids_issued before increment) and in the routing index; retirement removes from "
               "both with the removed value; the connection emits RetireConnectionId only past on_cid_retirement's Ok edge; (f) async endpoint: senders map insert/remove "
               "sites and event routing by the handle returned from proto; (g) tables whose insert overwrites (4-tuple / remote maps used with zero-length CIDs) are purged in ConnectionIndex::remove only under `table.get(key) == Some(ch)`; (h) reset-token routes are entered under exactly the (remote, token) pair written to ConnectionMeta.reset_token and deleted under both halves of one pair taken from that record. Stale mappings across arbitrary histories (relational invariant) are NOT decided.")
RULE = "rule instances = (rule, site) pairs over MIR stores / call sites / table fields; non-trivial = bound to a real site"
CI = 'endpoint::ConnectionIndex'


def _is_call(d, *names):
    """the descriptor IS (not merely contains) the result of a call to one of `names`"""
    return isinstance(d, tuple) and d[0] == 'call' and any(d[1] == n or path_matches(d[2], n) or D._trait_form(d[1]) == n for n in names)


def _is_param(d, name):
    """the value IS the parameter (every phi alternative), not something computed from it"""
    return all(x[0] == 'param' and x[2] == name for x in flat(d))


def _emptiness_edges(ctx, body, subj):
    """(Branch, empty: bool, target) for every branch edge that decides whether a value x with subj(x) is empty:
    `x.is_empty()` (negations peeled), `x.len() == 0`, `x.len() != 0`, `0 < x.len()`, `x.len() <= 0`."""
    F = ctx.facts

    def meth(d, m):
        return isinstance(d, tuple) and d[0] == 'call' and d[1].rsplit('::', 1)[-1] == m and len(d[3]) == 1 and subj(d[3][0])

    out = [(br, truth, tgt) for br, truth, tgt in bool_edges(ctx, body, lambda d: meth(d, 'is_empty'))]
    zero = lambda d: _fold(d) == 0 and not d[3]
    for br in branches(F, body):
        for truth in (True, False):
            rel = relation_on(br.desc, truth)
            if rel is None:
                continue
            o, a, b = rel
            e = None
            if o in ('Eq', 'Ne') and ((meth(a, 'len') and zero(b)) or (meth(b, 'len') and zero(a))):
                e = (o == 'Eq')
            elif o == 'Lt' and zero(a) and meth(b, 'len'):
                e = False
            elif o == 'Le' and meth(a, 'len') and zero(b):
                e = True
            if e is not None:
                out.append((br, e, br.target(1 if truth else 0)))
    # an edge only decides something when the two outcomes lead to different blocks
    return [(br, e, t) for br, e, t in out if len(set(x for _, x in br.edges)) > 1]


def _unprotected(body, viol_edges, sites):
    """sites (blocks) that are NOT confined to the pass edge of a guard: for a protected site some guard branch
    dominates it and the site cannot be reached from that guards violating edge without re-evaluating the guard."""
    live = body.live_blocks()
    return [s for s in sites if s in live and not any(
        body.dominates(br.bb, s) and s not in body.reachable_from(tgt, avoid=[br.bb]) for br, tgt in viol_edges)]


def _reach_assuming(body, assume):
    """blocks reachable from the entry when the call sites for which assume(call) returns a bool are taken to return
    that bool.  Forward propagation of known bool locals (const, copy, Not, assumed call results) per path; a switch
    on a known local only follows the matching edge.  Anything not understood forgets the local (more reachable,
    never less), locals whose address is taken mutably are never tracked."""
    calls = {c.bb: c for c in body.calls()}
    untracked = set()
    for blk in body.blocks:
        if blk['c']:
            continue
        for st in blk['s']:
            if st[0] == '=' and ((st[2][0] == 'ref' and st[2][1]) or st[2][0] == 'ptr'):
                untracked.add(st[2][2][0])

    def val(o, env):
        if o[0] in ('c', 'm'):
            return env.get(o[1][0]) if not o[1][1] else None
        if o[0] == 'k' and o[1] == 'int' and len(o) > 3 and o[3] == 'bool':
            return str(o[2]) == '1'
        return None

    seen = set()
    stack = [(0, frozenset())]
    blocks = set()
    while stack:
        bb, fenv = stack.pop()
        if (bb, fenv) in seen:
            continue
        seen.add((bb, fenv))
        blocks.add(bb)
        env = dict(fenv)
        blk = body.blocks[bb]
        for st in blk['s']:
            if st[0] == '=':
                l, proj = st[1]
                v = None
                if not proj:
                    rv = st[2]
                    if rv[0] == 'use':
                        v = val(rv[1], env)
                    elif rv[0] == 'un' and rv[1] == 'Not':
                        x = val(rv[2], env)
                        v = None if x is None else (not x)
                env.pop(l, None)
                if v is not None and l not in untracked:
                    env[l] = v
            elif st[0] == 'sd':
                env.pop(st[1][0], None)
        t = blk['t']
        succ = list(body.succ[bb])
        if t[0] == 'call':
            c = calls.get(bb)
            l, proj = c.dst
            env.pop(l, None)
            v = assume(c)
            if v is not None and not proj and l not in untracked:
                env[l] = bool(v)
        elif t[0] == 'switch':
            v = val(t[1], env)
            if v is not None:
                tgt = t[3]
                for k, x in t[2]:
                    if str(k) == ('1' if v else '0'):
                        tgt = x
                succ = [x for x in succ if x == tgt] if tgt in succ else succ
        elif t[0] not in ('goto', 'drop', 'assert', 'ret'):
            env = {}
        fenv = frozenset(env.items())
        for x in succ:
            stack.append((x, fenv))
    return blocks


def _path_counts(body, site_blocks, at):
    """possible numbers of `site_blocks` passed on an entry -> `at` path (capped at len+1 for cycles)"""
    site_blocks = set(site_blocks)
    cap = len(site_blocks) + 1
    inn = {0: {0}}
    work = [0]
    while work:
        b = work.pop()
        out = {min(cap, n + (1 if b in site_blocks else 0)) for n in inn[b]}
        for s2 in body.succ[b]:
            cur = inn.setdefault(s2, set())
            if not out <= cur:
                cur |= out
                work.append(s2)
    return inn.get(at, set())


def rule_a(ctx):
    F = ctx.facts
    rem = ctx.pfn('ConnectionIndex::remove')
    idx = F.adt(CI)
    fields = [f[0] for f in idx['variants'][0]['fields']]
    for f in fields:
        ws = [w for w in field_writes(F, CI, f, crate='quinn_proto') if w.body.id == rem.id]
        via = False
        for c in rem.calls():
            if c.k == 'item' and c.f in F.bodies and F.bodies[c.f].self_ty.endswith('ConnectionIndex'):
                if any(w2.body.id == c.f for w2 in field_writes(F, CI, f, crate='quinn_proto')):
                    via = True
        ctx.check(bool(ws) or via, 'a', 'remove_purges_' + f, rem, rem.where(), 'routing table %s purged on removal' % f, 'ConnectionIndex::remove does not touch `%s`: identifiers of a drained connection keep routing' % f)
    ctx.floor('a', 'routing_tables', len(fields), 5)
    # every loc_cid is removed: iteration over conn.loc_cids.values()
    it = [c for c in rem.calls() if c.is_('HashMap::values') and D.has_field(arg_desc(F, c, 0), 'loc_cids')]
    rm = [c for c in rem.calls_to('HashMap::remove') if D.has_field(arg_desc(F, c, 0), 'connection_ids')]
    ctx.check(bool(it) and bool(rm), 'a', 'remove_purges_every_issued_cid', rem, rem.where(), 'for cid in loc_cids.values() { connection_ids.remove(cid) }', 'not every issued CID is purged from the routing map')


def rule_g(ctx):
    """a routing table whose insert overwrites (the key is not exclusively owned by one connection: the 4-tuple /
    remote address with zero-length CIDs) may have been taken over by a newer connection; tearing down the old
    one must only delete an entry that still leads to it."""
    F = ctx.facts
    rem = ctx.pfn('ConnectionIndex::remove')
    ic = ctx.pfn('ConnectionIndex::insert_conn')
    n = 0
    for tbl in ('incoming_connection_remotes', 'outgoing_connection_remotes'):
        ins = [c for c in ic.calls_to('HashMap::insert') if D.has_field(arg_desc(F, c, 0), tbl)]
        # overwriting insert = its Option result is not inspected (no branch, no call consumes it)
        overwriting = []
        for c in ins:
            used = any(contains_site(br.desc, c) for br in branches(F, ic)) or any(contains_site(arg_desc(F, x, i), c) for x in ic.calls() for i in range(len(x.args)) if x.bb != c.bb)
            if not used:
                overwriting.append(c)
        ctx.info('g', 'table %s: %d insert site(s), %d overwriting' % (tbl, len(ins), len(overwriting)))
        rms = [c for c in rem.calls_to('HashMap::remove') if D.has_field(arg_desc(F, c, 0), tbl)]
        ctx.floor('g', 'remove_sites_' + tbl, len(rms), 1)
        if not overwriting:
            continue
        n += 1

        def rel(o, a, b, tbl=tbl):
            # violating: table.get(key) != Some(ch)
            x, y = (a, b) if D.has_call(a, 'HashMap::get') else (b, a)
            return o == 'Ne' and D.has_call(x, 'HashMap::get') and D.has_field(x, tbl) and D.has_param(y, name='ch')
        guard_protects(ctx, 'g', 'shared_route_removed_only_if_still_owned/' + tbl, rem, rel, [c.bb for c in rms], what='%s.get(key) != Some(ch)' % tbl)
    ctx.floor('g', 'overwritable_tables', n, 2)


_OLD_VALUE_CALLS = ('Option::replace', 'Option::take', 'mem::replace', 'mem::take')


def _recorded_pair_source(x):
    """x (the pair whose halves are used) IS the payload of the connection record's `reset_token`: after peeling the
    `Some` downcast and its payload projection, either a read of a field `reset_token` or the old value handed back
    by replace/take applied to exactly that field.  Returns a rendering of the source or None."""
    while x[0] == 'variant' and x[2] == 'Some' or x[0] == 'field' and x[2] == '0' and x[1][0] == 'variant':
        x = x[1]
    if x[0] == 'field' and x[2] == 'reset_token':
        return D.render(x)
    if x[0] == 'call' and x[3] and any(x[1] == n or path_matches(x[2], n) for n in _OLD_VALUE_CALLS):
        a0 = x[3][0]
        if a0[0] == 'field' and a0[2] == 'reset_token':
            return D.render(x)[:60]
    return None


def _halves(d, idx):
    """bases X such that the value is X.<idx> on every reaching definition; None when some alternative is not a
    projection `.idx`"""
    out = set()
    for x in flat(d):
        if x[0] == 'field' and x[2] == idx:
            out.add(x[1])
        else:
            return None
    return out


def _unwrap_some(d):
    if d[0] == 'agg' and d[1] == 'adt' and d[2].endswith('::Some') and len(d[3]) == 1:
        return d[3][0]
    return d


def _reset_token_pairs(ctx, he, ins):
    """the reset-token table and the connection records agree on the (remote, token) pair of each connection:
    * a route is deleted under BOTH halves of one pair taken from the record (`ConnectionMeta.reset_token`, read or
      handed back by replace/take) — never under a remote / token from elsewhere (event payload, current path): an
      entry registered under an earlier remote address would otherwise survive replacement and draining and keep
      routing stateless-reset-looking datagrams to a dead or re-used handle;
    * a route is entered under exactly the pair that is written into the record at the same time (so that the later
      removal, which knows only the record, finds it)."""
    F = ctx.facts
    rms = [c for c in F.callers_of('ResetTokenTable::remove', crate='quinn_proto') if not is_noise(c)]
    ctx.floor('b', 'reset_token_route_removal_sites', len(rms), 2)
    for c in rms:
        body = F.root_of(c.body)
        r, t = arg_desc(F, c, 1), arg_desc(F, c, 2)
        rb, tb = _halves(r, '0'), _halves(t, '1')
        src = None
        if rb and rb == tb:
            srcs = [_recorded_pair_source(x) for x in rb]
            src = None if None in srcs else ' | '.join(sorted(srcs))
        ctx.check(src is not None, 'b', 'reset_token_removed_under_its_recorded_pair', body, c.where(),
                  'remove(p.0, p.1) with p = %s' % src,
                  'the reset-token route is deleted under (%s, %s), which is not the (remote, token) pair taken as a whole from the connection record `reset_token`: '
                  'after an address change the entry registered under the old remote is never removed and outlives the connection' % (D.render(r)[:90], D.render(t)[:90]))
    # pairs written into the record in handle_event
    pairs = set()
    nw = 0
    for w in field_writes(F, 'endpoint::ConnectionMeta', 'reset_token', crate='quinn_proto'):
        if F.root_of(w.body).id != he.id:
            continue
        nw += 1
        cands = []
        if w.kind == 'mutborrow':
            # the consumer of the borrow (found directly, or — when the borrow is re-borrowed on its way — as a call of
            # the same body whose receiver IS the record field): its remaining arguments are what it may store
            cons = [w.call] if w.call is not None else [c for c in w.body.calls() if not is_noise(c) and c.args and (lambda a: a[0] == 'field' and a[2] == 'reset_token')(arg_desc(F, c, 0))]
            for c in cons:
                cands += [arg_desc(F, c, i) for i in range(1, len(c.args))]
            cands += [describer(F, x.body).rvalue(x.rv, x.bb, x.idx, 0) for x in borrow_stores(F, w) if x.rv and x.rv[0] != 'sd']
        elif w.kind == 'assign' and w.rv and w.rv[0] != 'sd':
            cands.append(describer(F, w.body).rvalue(w.rv, w.bb, w.idx, 0))
        for v in cands:
            for x in flat(v):
                x = _unwrap_some(x)
                if x[0] == 'agg' and x[1] == 'tuple' and len(x[3]) == 2:
                    pairs.add((x[3][0], x[3][1]))
    ctx.floor('b', 'reset_token_record_write_sites', nw, 1)
    for c in ins:
        got = (arg_desc(F, c, 1), arg_desc(F, c, 2))
        ctx.check(got in pairs, 'b', 'reset_token_route_is_the_recorded_pair', he, c.where(), 'insert(r, t, ch) with (r, t) the pair stored in ConnectionMeta.reset_token (%d stored pair(s))' % len(pairs),
                  'the reset-token route is entered under (%s, %s) but the connection record stores %s: removal by the recorded pair will not find the route' % (
                      D.render(got[0])[:80], D.render(got[1])[:80], sorted('(%s, %s)' % (D.render(a)[:60], D.render(b)[:60]) for a, b in pairs) or 'no (remote, token) pair'))


def _value_type(body, d):
    """declared type (references peeled) of a value that IS a parameter / named local of `body`; None otherwise"""
    if isinstance(d, tuple) and d[0] in ('param', 'local') and isinstance(d[1], int) and d[1] < len(body.locals):
        ty = body.locals[d[1]][0] or ''
        while ty.startswith('&'):
            ty = ty[1:].strip()
            if ty.startswith('mut '):
                ty = ty[4:].strip()
        return ty
    return None


def _is_type(ty, name):
    return ty is not None and (ty == name or ty.endswith('::' + name))


def _keyed_removal(F, w, field):
    """w (a Write of kind 'mutborrow') is the receiver borrow of `<table>.remove(&key)` on exactly the routing table
    `field` (HashMap::remove: deletes at most the one entry under `key`, never inserts or re-points): returns the key
    descriptor, else None"""
    c = w.call
    if w.kind != 'mutborrow' or c is None or not c.is_('HashMap::remove') or len(c.args) != 2:
        return None
    a0 = arg_desc(F, c, 0)
    if not (a0[0] == 'field' and a0[2] == field):
        return None
    return arg_desc(F, c, 1)


def _is_retired_cid(F, body, key):
    """the key IS (on every reaching definition) the payload of `Some(..)` handed back by `<record>.loc_cids.remove(..)`
    in the same function: a CID that has just been struck from a connection's own record of issued CIDs.  This is
    the whole effect of ConnectionIndex::retire at its call site (`if let Some(cid) = loc_cids.remove(&seq) {
    index.retire(cid) }`), stated on the value instead of on the helper's name."""
    rm = [c for c in body.calls_to('HashMap::remove') if D.has_field(arg_desc(F, c, 0), 'loc_cids')]
    alts = list(flat(key))
    for x in alts:
        if not (x[0] == 'field' and x[2] == '0' and x[1][0] == 'variant' and x[1][2] == 'Some'):
            return False
        src = x[1][1]
        if not (src[0] == 'call' and len(src) > 4 and any(src[4] == r.bb for r in rm)):
            return False
    return bool(alts) and bool(rm)


def _is_record_init_cid(F, body, key):
    """the key IS the field `init_cid` of the ConnectionMeta record handed to the function (the teardown shape
    `fn remove(&mut self, ch, conn: &ConnectionMeta)`): the initial-DCID route deleted is the one that was entered for
    this very record, i.e. exactly what `remove_initial(conn.init_cid)` deletes"""
    alts = list(flat(key))
    return bool(alts) and all(x[0] == 'field' and x[2] == 'init_cid' and x[1][0] == 'param' and _is_type(_value_type(body, x[1]), 'ConnectionMeta') for x in alts)


def _who_may_write(ctx, rule, instance, adt, field, allowed, floor=None, crate='quinn_proto', kinds=('assign', 'mutborrow', 'callresult'), also=None):
    """engine.rulelib.who_may_write (same keys, same counting), except that a write outside the `allowed` functions is
    accepted when `also(w)` returns a (non-empty) statement of why that very write has the effect of an allowed writer
    — a helper's body sitting in its caller.  Every other write outside the list is reported as before."""
    F = ctx.facts
    n = 0
    for w in [w for w in field_writes(F, adt, field, crate=crate) if w.kind in kinds]:
        if w.kind == 'mutborrow' and w.call is not None and is_noise(w.call):
            continue
        n += 1
        r = F.root_of(w.body)
        if root_matches(ctx, w.body, allowed):
            ctx.ok(rule, instance, r, w.where(), '%s of %s.%s' % (w.kind, adt, field))
            continue
        why = also(w) if also else None
        if why:
            ctx.ok(rule, instance, r, w.where(), '%s of %s.%s in %s: %s' % (w.kind, adt, field, r.short, why))
        else:
            ctx.bad(rule, instance + '/unexpected_writer', r, w.where(), '%s of %s.%s in %s; allowed writers: %s. ' % (w.kind, adt, field, r.short, sorted(allowed)))
    if floor is not None:
        ctx.floor(rule, instance, n, floor)


def rule_b(ctx):
    F0 = ctx.facts

    def retired_cid_route_removal(w):
        # body of ConnectionIndex::retire in its caller: connection_ids.remove(&cid), cid = payload of loc_cids.remove(..)
        k = _keyed_removal(F0, w, 'connection_ids')
        if k is not None and _is_retired_cid(F0, w.body, k):
            return 'deletes the route of the CID just removed from loc_cids (= ConnectionIndex::retire)'

    def record_initial_route_removal(w):
        # body of ConnectionIndex::remove_initial in the teardown function: connection_ids_initial.remove(&conn.init_cid)
        k = _keyed_removal(F0, w, 'connection_ids_initial')
        if k is not None and _is_record_init_cid(F0, w.body, k):
            return "deletes the initial-DCID route under the torn-down record's own init_cid (= remove_initial(conn.init_cid))"
    _who_may_write(ctx, 'b', 'connection_ids_writers', CI, 'connection_ids', ['Endpoint::new_cid', 'ConnectionIndex::insert_conn', 'ConnectionIndex::retire', 'ConnectionIndex::remove'], floor=4, also=retired_cid_route_removal)
    _who_may_write(ctx, 'b', 'connection_ids_initial_writers', CI, 'connection_ids_initial', ['ConnectionIndex::insert_initial_incoming', 'ConnectionIndex::insert_initial', 'ConnectionIndex::remove_initial'], floor=3, also=record_initial_route_removal)
    who_may_write(ctx, 'b', 'incoming_remotes_writers', CI, 'incoming_connection_remotes', ['ConnectionIndex::insert_conn', 'ConnectionIndex::remove'], floor=2)
    who_may_write(ctx, 'b', 'outgoing_remotes_writers', CI, 'outgoing_connection_remotes', ['ConnectionIndex::insert_conn', 'ConnectionIndex::remove'], floor=2)
    who_may_write(ctx, 'b', 'reset_tokens_writers', CI, 'connection_reset_tokens', ['Endpoint::handle_event', 'ConnectionIndex::remove'], floor=2)
    F = ctx.facts
    he = ctx.pfn('Endpoint::handle_event')
    rm = he.calls_to('ResetTokenTable::remove')
    ins = he.calls_to('ResetTokenTable::insert')
    ok = bool(rm) and bool(ins)
    ctx.check(ok, 'b', 'reset_token_replaced_not_accumulated', he, he.where(), 'old (remote, token) removed when a new one is registered', 'registering a new reset token no longer removes the connections previous one')
    for c in ins:
        ctx.check(_is_param(arg_desc(F, c, 3), 'ch'), 'b', 'reset_token_routes_to_its_connection', he, c.where(), 'insert(remote, token, ch)', 'reset token registered for another connection handle')
    _reset_token_pairs(ctx, he, ins)
    # ResetTokenTable::remove(remote, token) forgets ONE token: the per-remote map as a whole (it may hold tokens of
    # other connections behind the same address) is dropped from the outer table only over the `inner map is empty`
    # edge of a dominating test
    rt = ctx.pfn('ResetTokenTable::remove')
    inner = [c for c in rt.calls_to('HashMap::remove', 'HashMap::remove_entry', 'OccupiedEntry::remove', 'OccupiedEntry::remove_entry') if len(c.args) > 1 and D.has_param(arg_desc(F, c, 1), name='token')]
    def drops_remote(c):
        # removal from the OUTER table (self.0): through the occupied entry of `remote`, or by key / wholesale on self.0 itself
        a0 = arg_desc(F, c, 0)
        if c in inner or not D.has_param(a0, name='self'):
            return False
        if c.is_('OccupiedEntry::remove_entry', 'OccupiedEntry::remove'):
            return True
        return not D.calls_in(a0)
    outer = [c for c in rt.calls_to('OccupiedEntry::remove_entry', 'OccupiedEntry::remove', 'HashMap::remove', 'HashMap::remove_entry', 'HashMap::clear', 'HashMap::retain', 'HashMap::drain') if drops_remote(c)]
    ctx.floor('b', 'reset_token_single_removal_sites', len(inner), 1)
    ctx.floor('b', 'reset_token_remote_entry_removal_sites', len(outer), 1)
    emp = _emptiness_edges(ctx, rt, lambda x: D.has_param(x, name='self') and D.has_param(x, name='remote') and not D.has_param(x, name='token'))
    viol = [(br, t) for br, e, t in emp if not e]
    if not viol:
        ctx.bad('b', 'reset_token_remote_entry_dropped_only_when_empty/guard_missing', rt, rt.where(), 'the per-remote token map is removed from the table without a test that it is empty: tokens of other connections behind the same remote address are dropped with it')
    else:
        unp = _unprotected(rt, viol, [c.bb for c in outer])
        ctx.check(not unp, 'b', 'reset_token_remote_entry_dropped_only_when_empty', rt, rt.where(), '%d outer removal site(s) only over the inner-map is_empty() == true edge' % len(outer),
                  'outer removal block(s) %s reachable while the per-remote token map still holds other tokens' % unp)


def rule_c(ctx):
    F = ctx.facts
    nc = ctx.pfn('Endpoint::new_cid')
    hi = [c for c in nc.calls() if c.is_('HashMap::insert') and D.has_field(arg_desc(F, c, 0), 'connection_ids')]
    ve = nc.calls_to('VacantEntry::insert')
    en = [c for c in nc.calls_to('HashMap::entry') if D.has_field(arg_desc(F, c, 0), 'connection_ids')]
    ctx.check(not hi and bool(ve) and bool(en), 'c', 'cid_claimed_only_through_vacant_entry', nc, nc.where(), 'connection_ids.entry(cid) -> Vacant -> insert(ch)',
              'new_cid inserts into connection_ids with HashMap::insert: on a collision the other connections CID is re-pointed to this one before the retry')
    for c in ve:
        ctx.check(_is_param(arg_desc(F, c, 1), 'ch'), 'c', 'cid_routes_to_its_connection', nc, c.where(), 'e.insert(ch)', 'the new CID is mapped to something other than the requesting connection')
    # loop on collision: generate_cid is re-evaluated from the occupied edge
    gen = nc.calls_to('ConnectionIdGenerator::generate_cid')
    ok = bool(gen) and bool(en) and all(any(g.bb in nc.reachable_from(e.bb) for g in gen) for e in en)
    ctx.check(ok, 'c', 'collision_regenerates', nc, nc.where(), 'loop { generate_cid(); .. }', 'a colliding CID is not regenerated')
    # zero-length CIDs are not tracked
    # ... i.e. every claim site (connection_ids.entry / VacantEntry::insert / a plain insert) lies behind the
    # `generated cid is empty == false` edge of a dominating test on the freshly generated CID
    ze = _emptiness_edges(ctx, nc, lambda x: any(contains_site(x, g) for g in gen))
    viol = [(br, t) for br, e, t in ze if e]
    claim = sorted({c.bb for c in en + ve + hi})
    unp = _unprotected(nc, viol, claim)
    ctx.check(bool(viol) and bool(claim) and not unp, 'c', 'zero_length_cid_untracked', nc, nc.where(), 'cid.is_empty() -> leaves new_cid before connection_ids.entry(cid); %d claim site(s) only on the non-empty edge' % len(claim),
              'zero-length CIDs are entered into the CID map: ' + ('no test of the generated CID for emptiness' if not viol else 'claim site block(s) %s reachable from the `cid.is_empty()` edge' % unp))


def rule_d(ctx):
    F = ctx.facts
    eh = ctx.pfn('Endpoint::handle')
    g = eh.calls_to('ConnectionIndex::get')
    ctx.floor('d', 'routing_lookup_sites', len(g), 1)
    ev = [c for c in constructions(F, 'DatagramEvent', 'ConnectionEvent', crate='quinn_proto') if F.root_of(c.body).id == eh.id]
    d = describer(F, eh)
    for c in ev:
        h = d.operand(c.ops[0], c.bb, c.idx)
        ctx.check(any(contains_site(h, x) for x in g), 'd', 'routed_handle_from_index', eh, c.where(), 'ConnectionEvent(ch, ..) with ch from index.get()', 'the connection handle a datagram is routed to does not come from ConnectionIndex::get: ' + D.render(h)[:100])
    ctx.floor('d', 'connection_event_sites', len(ev), 1)
    gg = ctx.pfn('ConnectionIndex::get')
    gets = gg.calls_to('HashMap::get')
    order = []
    for c in gets:
        a = arg_desc(F, c, 0)
        for f in ('connection_ids_initial', 'connection_ids', 'incoming_connection_remotes', 'outgoing_connection_remotes'):
            if D.has_field(a, f):
                order.append((f, c))
                break
    names = [f for f, _ in order]
    ctx.check(sorted(names) == sorted(['connection_ids', 'connection_ids_initial', 'incoming_connection_remotes', 'outgoing_connection_remotes']), 'd', 'lookup_tables', gg, gg.where(), str(names), 'ConnectionIndex::get no longer consults the four routing maps: %s' % names)
    bym = dict(order)
    if len(bym) == 4 and len(order) == 4:
        # dominance order: connection_ids first; initial map only under is_initial()/is_0rtt(); tuple maps only under empty dcid
        ctx.check(gg.reachable_from(bym['connection_ids'].bb) >= {bym['connection_ids_initial'].bb}, 'd', 'cid_map_consulted_first', gg, gg.where(), 'connection_ids before connection_ids_initial', 'lookup order changed')
        # the initial-map lookup is reachable ONLY when datagram.is_initial() or datagram.is_0rtt() returned true:
        # taking both to return false (bools propagated through `||` temporaries, copies and `!`) the lookup must be
        # unreachable from the entry (sensitive to polarity and to extra disjuncts)
        tests = [c for c in gg.calls_to('PartialDecode::is_initial', 'PartialDecode::is_0rtt') if _is_param(arg_desc(F, c, 0), 'datagram')]
        site = bym['connection_ids_initial'].bb
        reach = _reach_assuming(gg, lambda c: False if c in tests else None)
        ctx.check(bool(tests) and site not in reach, 'd', 'initial_map_only_for_initial_or_0rtt', gg, gg.where(), 'connection_ids_initial.get unreachable when is_initial() and is_0rtt() are false (%d test sites)' % len(tests),
                  'the initial-DCID map is consulted for other packet types' + ('' if tests else ' (no is_initial()/is_0rtt() test on the datagram)'))
        # the 4-tuple lookups lie behind the `dst_cid().is_empty() == true` edge of a dominating test
        emp = _emptiness_edges(ctx, gg, lambda x: D.has_call(x, 'PartialDecode::dst_cid') and D.has_param(x, name='datagram'))
        viol = [(br, t) for br, e, t in emp if not e]
        unp = _unprotected(gg, viol, [bym['incoming_connection_remotes'].bb, bym['outgoing_connection_remotes'].bb])
        ctx.check(bool(viol) and not unp, 'd', 'tuple_maps_only_for_empty_dcid', gg, gg.where(), 'both 4-tuple lookups only over dst_cid().is_empty() == true',
                  '4-tuple routing is used for non-empty DCIDs' + ('' if viol else ' (no emptiness test of dst_cid())') + (': lookup block(s) %s reachable from a `!dst_cid().is_empty()` edge' % unp if unp else ''))


def _fold(d):
    """constant folding of simple Add chains"""
    if d[0] == 'const' and d[1] == 'int':
        return int(d[2])
    if d[0] == 'bin' and d[1] == 'Add':
        a, b = _fold(d[2]), _fold(d[3])
        if a is not None and b is not None:
            return a + b
    return None


def rule_e(ctx):
    F = ctx.facts
    ac = ctx.pfn('Endpoint::add_connection')
    ins = [c for c in ac.calls_to('HashMap::insert') if 'loc_cids' in D.render(describer(F, ac, stop_named=True).operand(c.args[0], c.bb, term_idx(ac, c.bb)))]
    ins.sort(key=lambda c: (len([b for b in range(len(ac.blocks)) if ac.dominates(b, c.bb)])))
    ctx.check(len(ins) == 2, 'e', 'initial_cid_records', ac, ac.where(), '2 loc_cids.insert sites', 'expected the handshake CID and the preferred-address CID to be recorded (2 sites), found %d' % len(ins))
    for i, c in enumerate(ins):
        k = _fold(arg_desc(F, c, 1))
        ctx.check(k == i, 'e', 'initial_cid_sequence_numbers', ac, c.where(), 'loc_cids.insert(%d, ..)' % i,
                  'the %s CID is recorded under sequence %s instead of %d: retirement and removal by sequence number will miss it' % ('handshake' if i == 0 else 'preferred-address', k, i))
    cm = [c for c in constructions(F, 'endpoint::ConnectionMeta', 'ConnectionMeta', crate='quinn_proto')]
    for c in cm:
        v = describer(F, ac).operand(c.field_op('cids_issued'), c.bb, c.idx)
        ks = sorted({_fold(x) for x in flat(v)}, key=lambda k: (k is None, k))
        # the folded values of cids_issued are exactly the possible numbers of loc_cids.insert sites passed on a path
        # to the record construction (real tree: {1, 2}: with / without preferred-address CID)
        want = sorted(_path_counts(ac, [x.bb for x in ins], c.bb))
        ctx.check(None not in ks and ks == want and bool(ins), 'e', 'cids_issued_counts_initial_cids', ac, c.where(), 'cids_issued in %s == loc_cids.insert sites per path %s' % (ks, want),
                  'cids_issued %s does not equal the number of initially recorded CIDs per path %s: the next issued CID reuses a sequence number' % (ks, want))
    ctx.floor('e', 'connection_meta_sites', len(cm), 1)
    sni = ctx.pfn('Endpoint::send_new_identifiers')
    ins = [c for c in sni.calls_to('HashMap::insert') if D.has_field(arg_desc(F, c, 0), 'loc_cids')]
    ctx.floor('e', 'issued_cid_record_sites', len(ins), 1)
    nc = sni.calls_to('Endpoint::new_cid')
    for c in ins:
        ctx.check(any(contains_site(arg_desc(F, c, 2), x) for x in nc), 'e', 'issued_cid_recorded_is_the_routed_one', sni, c.where(), 'loc_cids.insert(sequence, id) with id = new_cid(ch)', 'the CID recorded for the connection is not the one entered into the routing index')
        # key is cids_issued read before the increment
        k = describer(F, sni, stop_named=True).operand(c.args[1], c.bb, term_idx(sni, c.bb))
        inc = [w for w in field_writes(F, 'endpoint::ConnectionMeta', 'cids_issued', crate='quinn_proto') if w.body.id == sni.id and w.kind == 'assign']
        okk = k[0] == 'local' and k[2] == 'sequence' and bool(inc)
        if okk:
            # `sequence` is defined before the increment
            for l, (ty, nm) in enumerate(sni.locals):
                if nm == 'sequence':
                    for df in sni.defs_of(l):
                        if df[0] == 'stmt':
                            for w in inc:
                                if not (df[1] == w.bb and df[2] < w.idx or (sni.dominates(df[1], w.bb) and df[1] != w.bb)):
                                    okk = False
        ctx.check(okk, 'e', 'issued_cid_sequence_is_pre_increment', sni, c.where(), 'sequence = cids_issued; cids_issued += 1; insert(sequence, id)', 'issued CIDs are recorded under a sequence number other than the one announced to the peer')
    ic = [c for c in constructions(F, 'shared::IssuedCid', 'IssuedCid', crate='quinn_proto') if F.root_of(c.body).id == sni.id]
    for c in ic:
        dd = describer(F, sni, stop_named=True)
        ctx.check(dd.operand(c.field_op('sequence'), c.bb, c.idx)[2:3] == ('sequence',) and any(contains_site(describer(F, sni).operand(c.field_op('id'), c.bb, c.idx), x) for x in nc), 'e', 'announced_cid_matches_record', sni, c.where(), 'IssuedCid{sequence, id}', 'the CID announced to the peer differs from the recorded one')
    he = ctx.pfn('Endpoint::handle_event')
    rm = [c for c in he.calls_to('HashMap::remove') if D.has_field(arg_desc(F, c, 0), 'loc_cids')]
    rt = he.calls_to('ConnectionIndex::retire')
    # ... or the helper's body in place: connection_ids.remove(&cid) on exactly the value loc_cids.remove(..) handed back
    direct = [w.call for w in field_writes(F, CI, 'connection_ids', crate='quinn_proto') if F.root_of(w.body).id == he.id
              and (lambda k: k is not None and _is_retired_cid(F, w.body, k))(_keyed_removal(F, w, 'connection_ids'))]
    ok = bool(rm) and bool(rt or direct) and all(any(contains_site(arg_desc(F, r, 1), x) for x in rm) for r in rt)
    ctx.check(ok, 'e', 'retirement_removes_from_both', he, he.where(), 'loc_cids.remove(&seq) -> index.retire(cid) (%d call(s)) / connection_ids.remove(&cid) (%d in place)' % (len(rt), len(direct)), 'RetireConnectionId no longer removes the CID from both the connection record and the routing index')
    pp = ctx.pfn('Connection::process_payload')
    ev = [c for c in constructions(F, 'EndpointEventInner', 'RetireConnectionId', crate='quinn_proto') if F.root_of(c.body).id == pp.id]
    oc = pp.calls_to('CidState::on_cid_retirement')
    # the event is constructed only past the Ok (Continue) edge of a switch on the validators own result:
    # with that edge cut the construction is unreachable from the entry
    okedges = []
    for o in oc:
        for br in branches(F, pp):
            if br.desc[0] == 'discr' and br.desc[1][0] == 'call' and is_site(br.desc[1], o):
                t_ok, t_err = br.target(STD_VARIANTS['Result']['Ok']), br.target(STD_VARIANTS['Result']['Err'])
                if t_ok is not None and t_ok != t_err:
                    okedges.append((br.bb, t_ok))
    ok = bool(ev) and bool(oc) and bool(okedges) and all(any(pp.dominates(o.bb, e.bb) for o in oc) and any(e.bb not in pp.reachable_from(0, avoid_edges={oe}) for oe in okedges) for e in ev)
    ctx.check(ok, 'e', 'retire_event_after_validation', pp, pp.where(), 'RetireConnectionId event only past the Ok edge of on_cid_retirement(..) (%d Ok edge(s))' % len(okedges),
              'RETIRE_CONNECTION_ID is forwarded to the endpoint without validation' + ('' if okedges else ': the result of on_cid_retirement is never branched on'))


def rule_f(ctx):
    F = ctx.facts
    who_may_call(ctx, 'f', 'proto_handle_callers', ['quinn_proto::Endpoint::handle'], ['RecvState::poll_socket'], crate='quinn', floor=1)
    ps = ctx.qfn('RecvState::poll_socket')
    h = ps.calls_to('quinn_proto::Endpoint::handle')
    snd = [c for c in ps.calls() if short(c.f).endswith('::send') and 'ConnectionEvent' in ' '.join(c.ga)] + ps.calls_to('UnboundedSender::send')
    getm = [c for c in ps.calls_to('HashMap::get_mut') if D.has_field(arg_desc(F, c, 0), 'senders')]
    ok = bool(h) and bool(getm) and all(any(contains_site(arg_desc(F, g, 1), x) for x in h) for g in getm)
    ctx.check(ok, 'f', 'event_sent_to_routed_connection', ps, ps.where(), 'senders.get_mut(&handle) with handle from proto::Endpoint::handle', 'connection events are sent to a sender not selected by the protocol endpoints routing decision')
    who_may_write(ctx, 'f', 'senders_writers', 'ConnectionSet', 'senders', ['ConnectionSet::insert', 'State::handle_events', 'RecvState::poll_socket', 'EndpointInner::close', '<EndpointDriver as Drop>::drop', 'Endpoint::close', 'ConnectionSet::close', 'ConnectionSet::is_empty'], crate='quinn', floor=2)


def run(ctx):
    from rules.shared_rules import incoming_slot_route_paired
    from rules.shared_rules import cid_replacement_only_for_retired
    cid_replacement_only_for_retired(ctx, 'e', 'cid_replacement_only_for_retired_cid')
    incoming_slot_route_paired(ctx, 'h', 'incoming_slot_freed_with_its_route')
    rule_g(ctx)
    rule_a(ctx)
    rule_b(ctx)
    rule_c(ctx)
    rule_d(ctx)
    rule_e(ctx)
    rule_f(ctx)
