"""C07 — anti-amplification and stateless responses (structural part)."""
from engine.rulelib import *
from engine import desc as D

EXPLANATION = ("Static rules over quinn-proto MIR: (a) anti_amplification_blocked(b) is !validated && total_recvd*3 < total_sent + b; (b) in poll_transmit every "
               "site that makes room for a datagram (a raise of the capacity handed to PacketBuilder::new: the batch allocation `cap += ..` and the fresh capacity of "
               "the MTU probe) is dominated by the not-blocked edge of that test on self.path, whose argument accounts for the datagrams already built (size*count+1; the "
               "bare 1 only where buf is still empty); the loss timer is stopped while blocked; (c) PathData.validated is set true only in on_path_validated and the "
               "PATH_RESPONSE arm, every new path is constructed unvalidated with zeroed counters, and every challenge token stored in a path is a random draw of its "
               "own; (d) who-may-write and store idioms of total_sent / total_recvd: each received datagram is credited exactly once (first packet in handle_event, "
               "the rest in handle_coalesced) and only under source == self.path.remote; (e) stateless reset: rate limit, strictly smaller than the "
               "inciting datagram, timestamp stored; (f) Initials shorter than 1200 bytes create no state and no reply; (g) inventory of Transmit construction "
               "sites. The running 3x inequality including padding arithmetic is NOT decided.")
RULE = "rule instances = (rule, site) pairs over MIR expressions / stores / branches; non-trivial = bound to a real site"
PD = 'paths::PathData'


# --------------------------------------------------------------------------
# exact value shapes (casts are erased by the describer; Add/Mul operands are order-normalised, so both orders are tried)
# --------------------------------------------------------------------------

def is_int(d, v):
    """the literal integer v (not a named constant, not an expression containing it)"""
    return d[0] == 'const' and d[1] == 'int' and str(d[2]) == str(v)


def is_field_of(d, name, base=None):
    """d IS the field `name` (of a place satisfying `base`), not an expression that mentions it"""
    return d[0] == 'field' and d[2] == name and (base is None or base(d[1]))


def is_param(d, name):
    return d[0] == 'param' and d[2] == name


def is_self(d):
    return d[0] == 'param' and d[1] == 1 and d[2] == 'self'


def is_self_path(d):
    return is_field_of(d, 'path', is_self)


def is_len_of(d, what):
    """`x.len()` (any `..::len` method with the single receiver argument) where what(x)"""
    return d[0] == 'call' and d[1].rsplit('::', 1)[-1] == 'len' and len(d[3]) == 1 and what(d[3][0])


def two(d, op, p, q):
    """d is exactly `bin op(a, b)` with {a, b} matched by (p, q) in either order (for commutative ops)"""
    if not (d[0] == 'bin' and d[1] == op):
        return False
    return (p(d[2]) and q(d[3])) or (op in D.COMM and p(d[3]) and q(d[2]))


def arith(d, op, p, q):
    """d is exactly `a op b` for op in Add/Mul, written with the operator or as `a.saturating_<op>(b)`; {a, b} matched by (p, q)"""
    if d[0] == 'call' and d[1].rsplit('::', 1)[-1] == 'saturating_' + op.lower() and len(d[3]) == 2:
        return (p(d[3][0]) and q(d[3][1])) or (p(d[3][1]) and q(d[3][0]))
    return two(d, op, p, q)


def is_counter_add(v, field, amount):
    """v is exactly `self.path.<field> + amount` (saturating_add or plain +)"""
    return arith(v, 'Add', lambda x: is_field_of(x, field, is_self_path), amount)


def on_cycle(body, bb):
    """the block can execute more than once per call"""
    return bb in body.reachable_strict(bb)


def edge_returns(F, body, frm, tgt):
    """values `_0` holds at the normal returns reached after taking the edge frm->tgt (not passing `frm` again):
    the definitions of `_0` are searched backward from those returns only through blocks on the edge's side, so
    the result is the value returned ON THIS EDGE (the descriptor of `_0` at a shared return block is a phi over
    everything the function can return).  An entry None = `_0` is not (wholly) written after the edge on some path."""
    region = body.reachable_from(tgt, avoid=[frm])
    d = describer(F, body)
    stm, cal = {}, {}
    for df in body.defs_of(0):
        if df[0] in ('stmt', 'field', 'sd'):
            stm.setdefault(df[1], []).append(df)
        elif df[0] in ('call', 'callfield'):
            cal[df[1]] = df
    out = []
    seen = set()
    stack = [(r, False) for r in body.return_blocks() if r in region]
    while stack:
        blk, from_succ = stack.pop()
        if (blk, from_succ) in seen:
            continue
        seen.add((blk, from_succ))
        found = None
        if from_succ and blk in cal:
            found = cal[blk]
        elif blk in stm:
            found = max(stm[blk], key=lambda x: x[2])
        if found is not None:
            if found[0] == 'stmt':
                v = d.rvalue(found[3], found[1], found[2], 0)
            elif found[0] == 'call':
                v = d.call_desc(found[2], 0)
            else:
                v = None  # piecewise write of the return place: not understood, fail closed
            if v not in out:
                out.append(v)
            continue
        if blk == tgt and None not in out:
            out.append(None)  # reached the edge itself without a write (a back edge into tgt is followed below)
        for p in body.pred[blk]:
            if p in region:
                stack.append((p, True))
    return out


def rule_a(ctx):
    F = ctx.facts
    b = ctx.pfn('PathData::anti_amplification_blocked')
    rd = [y for _, x in ret_descs(F, b) for y in flat(x)]

    def formula(x):
        return x[0] == 'bin' and x[1] == 'Lt' \
            and arith(x[2], 'Mul', lambda y: is_field_of(y, 'total_recvd', is_self), lambda y: is_int(y, 3)) \
            and arith(x[3], 'Add', lambda y: is_field_of(y, 'total_sent', is_self), lambda y: is_param(y, 'bytes_to_send'))
    cmps = [x for x in rd if not (x[0] == 'const' and str(x[2]) == '0')]   # everything that is not the literal `false`
    ok = bool(cmps) and all(formula(x) for x in cmps)
    ctx.check(ok, 'a', 'blocked_formula', b, b.where(), 'total_recvd * 3 < total_sent + bytes_to_send', 'anti_amplification_blocked is no longer total_recvd*3 < total_sent + bytes_to_send: %s' % [D.render(x) for x in rd])
    # a branch on self.validated that every path passes and whose validated==TRUE edge returns the literal false
    okv = False
    seen = []
    for br in branches(F, b):
        inner, neg = peel_not(br.desc)
        if not is_field_of(inner, 'validated', is_self):
            continue
        vals = edge_returns(F, b, br.bb, br.target(0 if neg else 1))
        seen.append([D.render(x) if x else '?' for x in vals])
        if vals and all(x is not None and x[0] == 'const' and str(x[2]) == '0' for x in vals) and all(b.dominates(br.bb, r) for r in b.return_blocks() if r in b.live_blocks()):
            okv = True
    ctx.check(okv, 'a', 'validated_paths_never_blocked', b, b.where(), '!validated && ..: the validated edge returns false',
              'a validated path can be reported as amplification-blocked (no dominating branch on self.validated whose TRUE edge returns false; returned on that edge: %s)' % seen)


def covers(body, br, bad_target, site_bb):
    """the branch dominates the site and the site cannot be reached over `bad_target` without re-evaluating the branch"""
    return body.dominates(br.bb, site_bb) and site_bb not in body.reachable_from(bad_target, avoid=[br.bb])


def test_outcome(x, v, t):
    """what observing the bool descriptor x with value v says about the amplification test call t:
    'never'   x cannot have the value v,
    'passed'  x == v only if t was evaluated and returned false (not blocked),
    None      anything else.
    x is the test itself, a negation, the literal true/false, or a merge of such values (`a && !blocked(n)` stored in a
    named bool or returned by an inlined helper is phi[false | !blocked(n)]; `!a || blocked(n)` is phi[true | blocked(n)])."""
    if x[0] == 'un' and x[1] == 'Not':
        return test_outcome(x[2], not v, t)
    if x[0] == 'const' and x[1] == 'int' and str(x[2]) in ('0', '1'):
        return 'never' if (str(x[2]) == '1') != v else None
    if x[0] == 'call' and len(x) > 4 and x[4] == t.bb and short(t.f) == x[1]:
        return 'passed' if not v else None
    if x[0] == 'phi':
        rs = [test_outcome(y, v, t) for y in x[1]]
        if all(r == 'never' for r in rs):
            return 'never'
        return 'passed' if all(r in ('never', 'passed') for r in rs) else None
    return None


def blocks_reaching(body, tgt, avoid):
    """blocks from which tgt is reached without entering `avoid` (tgt included)"""
    seen, stack = set(), [tgt]
    while stack:
        b = stack.pop()
        if b in seen:
            continue
        seen.add(b)
        stack.extend(p for p in body.pred[b] if p not in avoid and p not in seen)
    return seen


def nothing_changes_between(body, frm, to):
    """on every path from the call terminating block `frm` to the terminator of block `to` nothing can change what the
    call has read: no store through a reference and no call that is handed a mutable reference (log macros apart)"""
    between = (body.reachable_strict(frm, avoid=[to]) & blocks_reaching(body, to, [frm])) | {to}
    if frm in between:
        return False
    for b in between:
        blk = body.blocks[b]
        for st in blk['s']:
            if st[0] == 'sd' or (st[0] == '=' and (st[1][1] or (st[2][0] == 'ref' and st[2][1]))):
                return False        # a store into a projection (field / through a pointer) or a fresh `&mut`
        if b == to:
            continue
        k = blk['t'][0]
        if k == 'call':
            c = [x for x in body.calls() if x.bb == b][0]
            if is_noise(c):
                continue
            if c.dst[1]:
                return False        # result stored into a projection
            for a in c.args:
                if a[0] in ('c', 'm') and (a[1][1] or body.local_ty(a[1][0]).lstrip().startswith(('&mut', '*mut'))):
                    return False
        elif k not in ('goto', 'switch', 'assert'):
            return False
    return True


def rule_b(ctx):
    F = ctx.facts
    pt = ctx.pfn('Connection::poll_transmit')
    d = describer(F, pt, stop_named=True)
    is_buf_len = lambda x: is_len_of(x, lambda y: is_param(y, 'buf'))
    # Sites at which room for a datagram is made available: every packet of poll_transmit is written through a
    # PacketBuilder, whose `buffer_capacity` argument bounds what may be written.  A site is
    #   - an ALLOCATION: a definition `L = L + x` of a local L handed over as buffer_capacity (one more datagram of a batch);
    #   - a FRESH datagram: any other definition of such a local that can raise it (everything but the literal 0 and
    #     `buf.len()`, which clips the capacity to what is already written), or the PacketBuilder::new call itself when the
    #     capacity argument is not a local (a datagram outside the batch loop: the MTU probe).
    pb = ctx.pfn('PacketBuilder::new')
    capi = [i - 1 for i in range(1, pb.argc + 1) if pb.local_name(i) == 'buffer_capacity']
    builders = pt.calls_to('PacketBuilder::new') if len(capi) == 1 else []
    ctx.floor('b', 'packet_builder_sites', len(builders), 2)
    allocs, fresh, cap_locals = [], [], set()
    for c in builders:
        a = d.operand(c.args[capi[0]], c.bb, term_idx(pt, c.bb))
        if a[0] != 'local':
            fresh.append((c.bb, c.line))
            continue
        l = a[1]
        if l in cap_locals:
            continue
        cap_locals.add(l)
        for df in pt.defs_of(l):
            if df[0] == 'stmt':
                x = d.rvalue(df[3], df[1], df[2], 0)
                line = pt.blocks[df[1]]['s'][df[2]][-1]
                if is_int(x, 0) or is_buf_len(x):
                    continue
                if two(x, 'Add', lambda y: y[0] == 'local' and y[1] == l, lambda y: True):
                    allocs.append((df[1], line))
                else:
                    fresh.append((df[1], line))
            elif df[0] in ('call', 'callfield'):
                fresh.append((df[1], df[2].line))
            elif df[0] != 'arg':
                fresh.append((df[1], pt.blocks[df[1]]['s'][df[2]][-1] if len(df) > 2 and isinstance(df[2], int) else 0))
    allocs, fresh = sorted(set(allocs)), sorted(set(fresh))
    ctx.floor('b', 'datagram_allocation_sites', len(allocs), 1)
    ctx.floor('b', 'fresh_datagram_sites', len(fresh), 1)
    tests = [t for t in pt.calls_to('PathData::anti_amplification_blocked') if t.args and is_self_path(d.operand(t.args[0], t.bb, term_idx(pt, t.bb)))]
    ctx.floor('b', 'amplification_test_sites', len(tests), 1)
    # the two locals of the test argument, identified by what is stored in them (not by their names):
    #   counter: the local incremented by exactly one where a datagram is allocated (X = X + 1 dominated by an allocation site)
    #   size:    the local initialised from self.path.current_mtu()
    counters, sizes = set(), set()
    for l in range(len(pt.locals)):
        for df in pt.defs_of(l):
            if df[0] == 'stmt':
                x = d.rvalue(df[3], df[1], df[2], 0)
                if two(x, 'Add', lambda y: y[0] == 'local' and y[1] == l, lambda y: is_int(y, 1)) and any(pt.dominates(bb, df[1]) for bb, _ in allocs):
                    counters.add(l)
            elif df[0] == 'call':
                x = d.call_desc(df[2], 0)
                if x[0] == 'call' and x[1] == 'PathData::current_mtu' and len(x[3]) == 1 and is_self_path(x[3][0]):
                    sizes.add(l)
    ctx.floor('b', 'datagram_counter_local', len(counters), 1)
    ctx.floor('b', 'segment_size_local', len(sizes), 1)
    # edges on which nothing has been written to `buf` yet: buf.is_empty() / buf.len() == 0 holds
    empty = [(br, br.target(0 if truth else 1)) for br, truth, tgt in
             bool_edges(ctx, pt, lambda x: x[0] == 'call' and x[1].rsplit('::', 1)[-1] == 'is_empty' and len(x[3]) == 1 and is_param(x[3][0], 'buf')) if truth]
    empty += [(br, br.target(0 if truth else 1)) for br, truth, tgt in
              guard_edges(ctx, pt, lambda o, a, b: o == 'Eq' and ((is_buf_len(a) and is_int(b, 0)) or (is_buf_len(b) and is_int(a, 0))))]
    nothing_built = lambda bb: any(covers(pt, br, other, bb) for br, other in empty)
    nbr = 0
    guards = []     # (test, branch, target of the BLOCKED edge, argument accounts for the whole batch)
    keep = counters | sizes

    def def_sites(l):
        return [(df[1], df[2] if df[0] in ('stmt', 'field', 'sd') else 1 << 30) for df in pt.defs_of(l) if df[0] != 'arg']

    def named_value(x, use_bb, depth=0):
        """x with every named temporary (a named local other than the counter / size locals) replaced by the expression
        of its single definition, provided that definition dominates the use and neither the counter nor the size local
        is redefined between the definition and the use (`let n = size * count + 1; blocked(n)` reads the same values as
        `blocked(size * count + 1)` only then); anything else is left as it is and so fails the exact shapes below"""
        if x[0] == 'bin':
            return x[:2] + (named_value(x[2], use_bb, depth), named_value(x[3], use_bb, depth)) + x[4:]
        if not (x[0] == 'local' and x[1] not in keep and x[2] and depth < 4):
            return x
        dfs = pt.defs_of(x[1])
        if len(dfs) != 1 or dfs[0][0] != 'stmt':
            return x
        tb, ti = dfs[0][1], dfs[0][2]
        if not pt.dominates(tb, use_bb):
            return x
        after = pt.reachable_strict(tb, avoid=[tb])
        for k in keep:
            for kb, ki in def_sites(k):
                if (kb == tb and ki > ti) or (kb != tb and kb in after and use_bb in pt.reachable_from(kb, avoid=[tb])):
                    return x
        return named_value(d.rvalue(dfs[0][3], tb, ti, 0), use_bb, depth + 1)
    for t in tests:
        a = named_value(d.operand(t.args[1], t.bb, term_idx(pt, t.bb)), t.bb)
        full = two(a, 'Add', lambda y: is_int(y, 1),
                   lambda y: two(y, 'Mul', lambda z: z[0] == 'local' and z[1] in counters, lambda z: z[0] == 'local' and z[1] in sizes))
        mine = []
        for br in branches(F, pt):
            inner, neg = peel_not(br.desc)
            if inner[0] == 'call' and contains_site(inner, t):
                nbr += 1
                mine.append((t, br, br.target(0 if neg else 1), full))
                continue
            # the same test behind a bool: `let ok = a && !blocked(n); .. if .. && ok`, `let no = !a || blocked(n); if !(no || ..)`,
            # or a one-line `&self` helper returning such a value (its body is part of this MIR): the edge on which the bool
            # can only have the value it gets from a passed test is the not-blocked edge, provided nothing between the test and
            # the branch can change what the test has read
            for v in (True, False):
                if test_outcome(br.desc, v, t) == 'passed' and nothing_changes_between(pt, t.bb, br.bb):
                    nbr += 1
                    mine.append((t, br, br.target(0 if v else 1), full))
        guards += mine
        # `blocked(1)` asks for one byte on top of total_sent alone: right only where this call has not built anything yet
        guarded = [bb for bb, _ in allocs + fresh if any(covers(pt, br, tb, bb) for _, br, tb, _ in mine)]
        ok = full or (is_int(a, 1) and all(nothing_built(bb) for bb in guarded))
        ctx.check(ok, 'b', 'test_accounts_for_built_datagrams', pt, t.where(), 'segment_size * num_datagrams + 1' if full else '1, only for datagrams started while buf is empty',
                  'the amplification test does not account for exactly the datagrams already built in this call (size * count + 1; the bare 1 only where buf is still empty): ' + D.render(a)[:160])
    ctx.floor('b', 'branches_on_amplification_test', nbr, 1)
    for inst, sites, what in (('allocation_only_when_not_blocked', allocs, 'every buf_capacity += .. is dominated by the not-blocked edge'),
                              ('fresh_datagram_only_when_not_blocked', fresh, 'a datagram started outside the batch loop (MTU probe) is dominated by the not-blocked edge')):
        for bb, line in sites:
            ok = any(covers(pt, br, tb, bb) for _, br, tb, _ in guards)
            ctx.check(ok, 'b', inst, pt, pt.where(line), what, 'a datagram can be allocated although the path is amplification-blocked (line %s): no amplification test on self.path dominates the site with its blocked edge leading away from it' % line)
    sl = ctx.pfn('Connection::set_loss_detection_timer')
    tests = sl.calls_to('PathData::anti_amplification_blocked')
    ok = False
    for t in tests:
        for br in branches(F, sl):
            inner, neg = peel_not(br.desc)
            if inner[0] == 'call' and contains_site(inner, t):
                tb = br.target(0 if neg else 1)
                sets = [c.bb for c in sl.calls_to('TimerTable::set') if sl.dominates(br.bb, c.bb)]
                ok = all(s not in sl.reachable_from(tb) for s in sets) and any(c.bb in sl.reachable_from(tb) for c in sl.calls_to('TimerTable::stop'))
    ctx.check(ok, 'b', 'no_pto_while_blocked', sl, sl.where(), 'blocked -> stop(LossDetection), no PTO armed', 'the loss timer can be armed while amplification-blocked (PTO probes would exceed the budget)')


def rule_c(ctx):
    F = ctx.facts
    for w, v in store_values(ctx, PD, 'validated'):
        r = F.root_of(w.body)
        ctx.check(r.short in ('Connection::on_path_validated', 'Connection::process_payload'), 'c', 'validated_writers', r, w.where(), 'validated = true in %s' % r.short, 'PathData.validated written in unexpected function %s' % r.short)
    ctx.floor('c', 'validated_stores', len(store_values(ctx, PD, 'validated')), 2)
    cons = constructions(F, PD, 'PathData', crate='quinn_proto')
    ctx.floor('c', 'path_constructors', len(cons), 2)
    for c in cons:
        d = describer(F, c.body)
        for fld, want in (('validated', '0'), ('total_sent', '0'), ('total_recvd', '0')):
            v = d.operand(c.field_op(fld), c.bb, c.idx)
            ctx.check(v[0] == 'const' and str(v[2]) == want, 'c', 'new_path_starts_unvalidated', F.root_of(c.body), c.where(), '%s: %s' % (fld, D.render(v)),
                      'a new PathData is constructed with %s = %s (must start unvalidated with zeroed amplification counters)' % (fld, D.render(v)[:80]))
    who_may_call(ctx, 'c', 'on_path_validated_callers', ['Connection::on_path_validated'], ['Connection::new', 'Connection::process_decrypted_packet'], floor=2)
    cn = ctx.pfn('Connection::new')
    for c in cn.calls_to('Connection::on_path_validated'):
        brs = [br for br in branches(F, cn, stop_named=True) if peel_not(br.desc)[0][0] == 'local' and peel_not(br.desc)[0][2] == 'path_validated' and cn.dominates(br.bb, c.bb)]
        ctx.check(bool(brs) and all(c.bb not in cn.reachable_from(br.target(0), avoid=[br.bb]) for br in brs), 'c', 'initial_validation_only_with_token', cn, c.where(), 'if path_validated', 'a new connection marks its path validated without a validated token')
    pp = ctx.pfn('Connection::process_payload')
    for w, v in store_values(ctx, PD, 'validated', in_fn=pp):
        def rel(o, a, b):
            return o == 'Ne' and ((D.has_field(a, 'challenge') or D.has_field(b, 'challenge')))
        es = guard_edges(ctx, pp, lambda o, a, b: o == 'Eq' and (D.has_field(a, 'challenge') or D.has_field(b, 'challenge')))
        ok = any(pp.dominates(br.bb, w.bb) and w.bb not in pp.reachable_from(br.target(0 if truth else 1), avoid=[br.bb]) for br, truth, tgt in es)
        ctx.check(ok, 'c', 'path_response_must_match_challenge', pp, w.where(), 'validated = true only if challenge == Some(token)', 'a PATH_RESPONSE validates the path without matching the outstanding challenge')
        es2 = guard_edges(ctx, pp, lambda o, a, b: o == 'Eq' and D.has_param(a, name='remote') | D.has_param(b, name='remote') and (D.has_field(a, 'remote') or D.has_field(b, 'remote')))
        ok2 = any(pp.dominates(br.bb, w.bb) and w.bb not in pp.reachable_from(br.target(0 if truth else 1), avoid=[br.bb]) for br, truth, tgt in es2)
        ctx.check(ok2, 'c', 'path_response_must_come_from_path', pp, w.where(), '&& remote == path.remote', 'a PATH_RESPONSE from another address validates the path')

    # a path challenge proves that the peer receives at the challenged address only if its token is known to nobody else:
    # every token stored in a PathData.challenge is its own draw from the connection RNG (one draw site per store, the
    # drawn value stored as it is), so the token sent to one address never validates another
    toks = [(w, v) for w, v in store_values(ctx, PD, 'challenge') if not (v[0] == 'agg' and v[1] == 'adt' and v[2].endswith('Option::None'))]
    for w in field_writes(F, PD, 'challenge', crate='quinn_proto'):
        if w.kind != 'mutborrow' or (w.call is not None and (is_noise(w.call) or w.call.is_('Option::take'))) or borrow_stores(F, w):
            continue
        if w.call is not None and w.call.is_('Option::replace', 'Option::insert', 'Option::get_or_insert') and len(w.call.args) == 2:
            toks.append((w, ('agg', 'adt', 'option::Option::Some', (arg_desc(F, w.call, 1),), ('0',))))    # stores Some(arg)
        else:
            toks.append((w, ('const', 'other', '<&mut challenge handed to %s>' % (short(w.call.f) if w.call is not None else '?'), '')))
    ctx.floor('c', 'challenge_token_stores', len(toks), 2)

    def draw(v):
        """(body id, block) of the RNG call when v is exactly Some(self.rng.random())"""
        if not (v[0] == 'agg' and v[1] == 'adt' and v[2].endswith('Option::Some') and len(v[3]) == 1):
            return None
        x = v[3][0]
        if x[0] == 'call' and x[1].rsplit('::', 1)[-1] in ('random', 'next_u64') and len(x[3]) == 1 and is_field_of(x[3][0], 'rng', is_self) and len(x) > 4:
            return x[4]
        return None
    draws = {}
    for w, v in toks:
        s = draw(v)
        if s is not None:
            draws.setdefault((w.body.id, s), []).append(w)
    for w, v in toks:
        s = draw(v)
        r = F.root_of(w.body)
        if s is None:
            ctx.bad('c', 'challenge_token_fresh_per_path', r, w.where(), 'the token stored in PathData.challenge is not exactly a fresh draw from the connection RNG (a copied, derived or constant token can be known to another address): ' + D.render(v)[:160])
            continue
        shared = [o.where() for o in draws[(w.body.id, s)] if o is not w]
        looped = on_cycle(w.body, w.bb) and not (on_cycle(w.body, s) and w.body.dominates(s, w.bb))
        ctx.check(not shared and not looped, 'c', 'challenge_token_fresh_per_path', r, w.where(), 'Some(self.rng.random()), a draw of its own',
                  'one random draw is stored as the challenge of more than one path (also stored at %s): the token sent to one address validates the other' % (shared or 'each loop iteration'))


def rule_d(ctx):
    F = ctx.facts
    who_may_write(ctx, 'd', 'total_sent_writers', PD, 'total_sent', ['Connection::poll_transmit', 'PathData::new', 'PathData::from_previous'], floor=1)
    who_may_write(ctx, 'd', 'total_recvd_writers', PD, 'total_recvd', ['Connection::handle_event', 'Connection::handle_coalesced', 'Connection::handle_first_packet', 'PathData::new', 'PathData::from_previous'], floor=3)
    n = 0
    for w, v in store_values(ctx, PD, 'total_sent'):
        r = F.root_of(w.body)
        if r.short == 'Connection::poll_transmit':
            n += 1
            ok = is_counter_add(v, 'total_sent', lambda x: is_len_of(x, lambda y: is_param(y, 'buf')))
            ctx.check(ok, 'd', 'total_sent_counts_buffer', r, w.where(), D.render(v)[:120], 'total_sent is not raised by exactly buf.len(): ' + D.render(v)[:160])
    ctx.floor('d', 'total_sent_charge_sites', n, 1)
    he = ctx.pfn('Connection::handle_event')
    for w, v in store_values(ctx, PD, 'total_recvd', in_fn=he):
        ok = is_counter_add(v, 'total_recvd', lambda x: is_len_of(x, lambda y: is_field_of(y, 'first_decode', lambda z: D.has_param(z, name='event')))) and not on_cycle(w.body, w.bb)
        ctx.check(ok, 'd', 'first_packet_credited_once', he, w.where(), D.render(v)[:160],
                  'handle_event must credit exactly the first packet, once (handle_coalesced credits the remainder): crediting `remaining` here counts those bytes twice: ' + D.render(v)[:200])
    hc = ctx.pfn('Connection::handle_coalesced')
    for w, v in store_values(ctx, PD, 'total_recvd', in_fn=hc):
        ok = is_counter_add(v, 'total_recvd', lambda x: is_len_of(x, lambda y: is_param(y, 'data')))
        once = not on_cycle(w.body, w.bb)
        ctx.check(ok and once, 'd', 'coalesced_remainder_credited_once', hc, w.where(), D.render(v)[:120],
                  ('handle_coalesced must credit exactly the length of its `data` argument: ' + D.render(v)[:160]) if not ok else 'the credit of handle_coalesced sits in a loop: it is applied once per coalesced packet instead of once per datagram')
    ctx.check(len(store_values(ctx, PD, 'total_recvd', in_fn=hc)) == 1 and len(store_values(ctx, PD, 'total_recvd', in_fn=he)) == 1, 'd', 'one_credit_per_function', hc, hc.where(), 'one store each', 'number of total_recvd stores changed')
    # a datagram raises the budget of the path only if it came from the path's own remote: every credit of handle_event /
    # handle_coalesced sits on the `source == self.path.remote` edge of a dominating comparison (source = the event's
    # `remote` field resp. the `remote` parameter), and the callers hand the datagram's source on unchanged
    ev_remote = lambda x: is_field_of(x, 'remote', lambda z: D.has_param(z, name='event') and not D.has_param(z, name='self'))
    for fn, src in ((he, ev_remote), (hc, lambda x: is_param(x, 'remote'))):
        own = lambda o, a, b, src=src: o == 'Eq' and ((src(a) and is_field_of(b, 'remote', is_self_path)) or (src(b) and is_field_of(a, 'remote', is_self_path)))
        es = guard_edges(ctx, fn, own)
        for w, v in store_values(ctx, PD, 'total_recvd', in_fn=fn):
            ok = w.body.id == fn.id and any(covers(fn, br, br.target(0 if truth else 1), w.bb) for br, truth, tgt in es)
            ctx.check(ok, 'd', 'credit_only_from_path_remote', fn, w.where(), 'credited under remote == self.path.remote',
                      'total_recvd of the current path is credited for a datagram that need not come from the path\'s own address (no dominating `remote == self.path.remote` whose other edge leads away from the store)')
    ri = [i - 1 for i in range(1, hc.argc + 1) if hc.local_name(i) == 'remote']
    nsrc = 0
    for c in F.callers_of('Connection::handle_coalesced', crate='quinn_proto'):
        r = F.root_of(c.body)
        a = arg_desc(F, c, ri[0]) if len(ri) == 1 else ('const', 'other', '<noarg>', '')
        ok = c.body.id == r.id and (ev_remote(a) if r.id == he.id else is_param(a, 'remote'))
        nsrc += 1
        ctx.check(ok, 'd', 'coalesced_source_is_datagram_remote', r, c.where(), D.render(a)[:80],
                  'handle_coalesced is not given the source address of the datagram being processed (its credit test compares this argument with path.remote): ' + D.render(a)[:120])
    ctx.floor('d', 'coalesced_source_sites', nsrc, 2)
    who_may_call(ctx, 'd', 'handle_coalesced_callers', ['Connection::handle_coalesced'], ['Connection::handle_event', 'Connection::handle_first_packet'], floor=2)
    hf = ctx.pfn('Connection::handle_first_packet')
    fs = store_values(ctx, PD, 'total_recvd', in_fn=hf)
    for w, v in fs:
        pk = lambda f: (lambda x: is_len_of(x, lambda y: is_field_of(y, f, lambda z: is_param(z, 'packet'))))
        ok = two(v, 'Add', pk('header_data'), pk('payload')) and not on_cycle(w.body, w.bb)
        ctx.check(ok, 'd', 'first_initial_credit', hf, w.where(), D.render(v)[:120],
                  'first-packet credit is not exactly header_data.len() + payload.len() (the coalesced remainder is credited by handle_coalesced): ' + D.render(v)[:200])
    ctx.check(len(fs) == 1, 'd', 'first_initial_credited_once', hf, hf.where(), 'one store', 'handle_first_packet writes total_recvd %d times (expected exactly one store)' % len(fs))


def rule_e(ctx):
    F = ctx.facts
    sr = ctx.pfn('Endpoint::stateless_reset')
    trs = [c for c in constructions(F, 'Transmit', 'Transmit', crate='quinn_proto') if F.root_of(c.body).id == sr.id]
    ctx.floor('e', 'reset_transmit_sites', len(trs), 1)
    # rate limit
    es = bool_edges(ctx, sr, lambda d: d[0] == 'call' and d[1] == 'Option::is_some_and' and D.has_field(d, 'last_stateless_reset'))
    ok = bool(es) and all(all(t.bb not in sr.reachable_from(tgt) for t in trs) for br, truth, tgt in es if truth)
    ctx.check(ok, 'e', 'reset_rate_limited', sr, sr.where(), 'last + min_reset_interval > now -> None', 'stateless resets are no longer rate limited')
    # the predicate handed to is_some_and: `now` strictly (or weakly) before `last + min_reset_interval`, in this direction
    isa = [c for c in sr.calls_to('Option::is_some_and') if c.args and is_field_of(arg_desc(F, c, 0), 'last_stateless_reset', is_self)]
    cl = [b for c in isa for b in closure_args(F, c)]
    now = lambda x: x == ('upvar', 'now')
    last = lambda x: x[0] == 'param' and x[1] == 2          # the closure's own argument (_1 is the environment)
    ivl = lambda x: is_field_of(x, 'min_reset_interval')

    def plus(x, p, q):      # p + q with the operator of Instant/Duration (a trait call) or of integers
        if x[0] == 'call' and D._trait_form(x[1]) == 'Add::add' and len(x[3]) == 2:
            return (p(x[3][0]) and q(x[3][1])) or (p(x[3][1]) and q(x[3][0]))
        return two(x, 'Add', p, q)

    def minus(x, p, q):     # p - q (operator, duration_since, saturating_duration_since)
        if x[0] == 'call' and (D._trait_form(x[1]) == 'Sub::sub' or x[1].rsplit('::', 1)[-1] in ('duration_since', 'saturating_duration_since')) and len(x[3]) == 2:
            return p(x[3][0]) and q(x[3][1])
        return x[0] == 'bin' and x[1] == 'Sub' and p(x[2]) and q(x[3])

    def within(y):
        if not (y[0] == 'bin' and y[1] in ('Lt', 'Le')):
            return False
        return (now(y[2]) and plus(y[3], last, ivl)) or (minus(y[2], now, last) and ivl(y[3]))
    rds = [y for b in cl for _, x in ret_descs(F, b) for y in flat(x)]
    okc = len(cl) == 1 and bool(rds) and all(within(y) for y in rds)
    ctx.check(okc, 'e', 'reset_interval_relation', sr, sr.where(), 'last + min_reset_interval > now', 'rate limit relation changed (must hold exactly while now < last + min_reset_interval): %s' % [D.render(y)[:120] for y in rds])
    st = [w for w in field_writes(F, 'endpoint::Endpoint', 'last_stateless_reset', crate='quinn_proto') if F.root_of(w.body).id == sr.id and w.kind in ('assign', 'callresult')]
    dsr = describer(F, sr)

    def some_now(w):
        if w.kind != 'assign' or not w.rv or w.rv[0] == 'sd' or w.body.id != sr.id:
            return False
        v = dsr.rvalue(w.rv, w.bb, w.idx, 0)
        return v[0] == 'agg' and v[1] == 'adt' and v[2].endswith('Option::Some') and len(v[3]) == 1 and is_param(v[3][0], 'now')
    ok = bool(st) and all(some_now(w) for w in st) and all(any(sr.dominates(w.bb, t.bb) for w in st) for t in trs)
    ctx.check(ok, 'e', 'reset_time_recorded', sr, sr.where(), 'last_stateless_reset = Some(now) before sending', 'the time of the last stateless reset is not recorded (as Some(now)) on the sending path')
    # max_padding_len = headroom - 1 under headroom > MIN_PADDING_LEN
    mp = local_defs_desc(ctx, sr, 'max_padding_len')

    def headroom(x):        # the payload of Some(..) = inciting_dgram_len.checked_sub(RESET_TOKEN_SIZE)
        if not (x[0] == 'field' and x[2] == '0' and x[1][0] == 'variant' and x[1][2] == 'Some'):
            return False
        c = x[1][1]
        return c[0] == 'call' and c[1] == 'usize::checked_sub' and len(c[3]) == 2 and is_param(c[3][0], 'inciting_dgram_len') \
            and c[3][1][0] == 'const' and D.has_const(c[3][1], named='RESET_TOKEN_SIZE')
    alts = [y for x in mp for y in flat(x)]
    ok = bool(alts) and all(y[0] == 'bin' and y[1] == 'Sub' and headroom(y[2]) and is_int(y[3], 1) for y in alts)
    ctx.check(ok, 'e', 'reset_smaller_than_inciting', sr, sr.where(), 'max_padding_len = (inciting - RESET_TOKEN_SIZE) - 1', 'the stateless reset is no longer strictly smaller than the inciting datagram: %s' % [D.render(x)[:100] for x in mp])
    # headroom <= MIN_PADDING_LEN (the violating relation) must lead away from every Transmit construction
    guard_protects(ctx, 'e', 'reset_needs_headroom', sr, lambda o, a, b: o == 'Le' and headroom(a) and is_int(b, 5), [t.bb for t in trs], what='headroom > MIN_PADDING_LEN')
    pl = local_defs_desc(ctx, sr, 'padding_len')
    mpr = {D.render(y) for x in mp for y in flat(x)}

    def bounded(y):
        if D.render(y) in mpr:
            return True
        if y[0] == 'call' and y[1].endswith('random_range') and len(y[3]) > 1 and y[3][1][0] == 'agg' and 'Range' in y[3][1][2] and len(y[3][1][3]) == 2:
            return D.render(y[3][1][3][1]) in mpr  # exclusive upper end = max_padding_len
        return False
    ok = bool(pl) and all(all(bounded(y) for y in flat(x)) for x in pl)
    ctx.check(ok, 'e', 'padding_bounded_by_max', sr, sr.where(), 'padding_len <= max_padding_len (range ..max_padding_len)', 'padding length no longer bounded by max_padding_len')


def rule_f(ctx):
    F = ctx.facts
    hf = ctx.pfn('Endpoint::handle_first_packet')
    prot = [c.bb for c in hf.calls_to('ServerConfig::initial_keys', 'Session::initial_keys', 'crypto::ServerConfig::initial_keys')] + [c.bb for c in hf.calls_to('Slab::insert')] + \
        [c.bb for c in hf.calls_to('ConnectionIndex::insert_initial_incoming')] + [c.bb for c in hf.calls_to('Endpoint::initial_close')] + \
        [c.bb for c in constructions(F, 'DatagramEvent', 'NewConnection', crate='quinn_proto') if F.root_of(c.body).id == hf.id]
    guard_protects(ctx, 'f', 'short_initial_ignored', hf, lambda o, a, b: o == 'Lt' and D.has_param(a, name='datagram_len') and D.has_const(b, named='MIN_INITIAL_SIZE'), prot, what='datagram_len < MIN_INITIAL_SIZE')
    ctx.floor('f', 'protected_sites', len(prot), 5)
    short_rel = lambda o, a, b: o == 'Lt' and is_param(a, 'datagram_len') and b[0] == 'const' and D.has_const(b, named='MIN_INITIAL_SIZE')
    es = guard_edges(ctx, hf, short_rel)
    ctx.floor('f', 'short_initial_guards', len(es), 1)
    for br, truth, tgt in es:
        # what is returned ON the short edge (the return block is shared by every `return` of the function)
        rd = edge_returns(F, hf, br.bb, tgt)
        ok = bool(rd) and all(y is not None and y[0] == 'agg' and y[1] == 'adt' and y[2].endswith('Option::None') for x in rd for y in (flat(x) if x is not None else [None]))
        ctx.check(ok, 'f', 'short_initial_gets_no_reply', hf, br.where(), 'returns None',
                  'a short Initial produces a reply: on the datagram_len < MIN_INITIAL_SIZE edge the function returns %s' % [D.render(x)[:100] if x is not None else '?' for x in rd])


def rule_g(ctx):
    F = ctx.facts
    cons = [c for c in constructions(F, 'Transmit', 'Transmit', crate='quinn_proto')]
    roots_ = sorted({F.root_of(c.body).short for c in cons})
    exp = sorted(['Connection::poll_transmit', 'Connection::send_path_challenge', 'Endpoint::handle', 'Endpoint::stateless_reset', 'Endpoint::initial_close', 'Endpoint::retry'])
    ctx.check(roots_ == exp, 'g', 'transmit_construction_sites', 'Transmit', '', str(roots_), 'Transmit construction sites changed (each must be classified for amplification): %s' % roots_)
    ctx.info('g', 'off-path PATH_RESPONSE (poll_transmit) and PATH_CHALLENGE to the previous path (send_path_challenge) are padded to 1200 bytes and not charged to an amplification budget; they require an authenticated packet from the peer (DESIGN section 7, triage item)')


def run(ctx):
    rule_a(ctx)
    rule_b(ctx)
    rule_c(ctx)
    rule_d(ctx)
    rule_e(ctx)
    rule_f(ctx)
    rule_g(ctx)
    # obligations shared with a sibling property (evaluated by the owning module, reported here under letter x)
    from engine.rulelib import share as _share
    _share(ctx, 'C15', 'rule_c', 'x', 'only a validated previous path is kept as fallback and challenged: an unvalidated one would be sent a padded PATH_CHALLENGE outside its anti-amplification budget')

