"""C07 — anti-amplification and stateless responses (structural part)."""
from engine.rulelib import *
from engine import desc as D

EXPLANATION = ("Static rules over quinn-proto MIR: (a) anti_amplification_blocked(b) is !validated && total_recvd*3 < total_sent + b; (b) in poll_transmit every "
               "datagram allocation (buf_capacity += ..) is dominated by the not-blocked edge of that test, whose argument accounts for the datagrams already "
               "built; the loss timer is stopped while blocked; (c) PathData.validated is set true only in on_path_validated and the PATH_RESPONSE arm and every new "
               "path is constructed unvalidated with zeroed counters; (d) who-may-write and store idioms of total_sent / total_recvd: each received datagram is "
               "credited exactly once (first packet in handle_event, the rest in handle_coalesced); (e) stateless reset: rate limit, strictly smaller than the "
               "inciting datagram, timestamp stored; (f) Initials shorter than 1200 bytes create no state and no reply; (g) inventory of Transmit construction "
               "sites. The running 3x inequality including padding arithmetic is NOT decided.")
RULE = "rule instances = (rule, site) pairs over MIR expressions / stores / branches; non-trivial = bound to a real site"
PD = 'paths::PathData'


def rule_a(ctx):
    F = ctx.facts
    b = ctx.pfn('PathData::anti_amplification_blocked')
    rd = [y for _, x in ret_descs(F, b) for y in flat(x)]
    ok = False
    for x in rd:
        if x[0] == 'bin' and x[1] == 'Lt':
            l, r = x[2], x[3]
            ok = l[0] == 'bin' and l[1] == 'Mul' and D.has_field(l, 'total_recvd') and D.has_const(l, 3) and r[0] == 'bin' and r[1] == 'Add' and D.has_field(r, 'total_sent') and D.has_param(r, name='bytes_to_send')
    ctx.check(ok, 'a', 'blocked_formula', b, b.where(), 'total_recvd * 3 < total_sent + bytes_to_send', 'anti_amplification_blocked is no longer total_recvd*3 < total_sent + bytes_to_send: %s' % [D.render(x) for x in rd])
    v = [br for br in branches(F, b) if D.has_field(br.desc, 'validated')]
    okv = bool(v) and all(any(y[0] == 'const' and str(y[2]) == '0' for _, x in ret_descs(F, b) for y in flat(x)) for _ in [0])
    ctx.check(okv, 'a', 'validated_paths_never_blocked', b, b.where(), '!validated && ..', 'the validated short-circuit is gone')


def rule_b(ctx):
    F = ctx.facts
    pt = ctx.pfn('Connection::poll_transmit')
    d = describer(F, pt, stop_named=True)
    allocs = []
    for i, j, pl, rv, line in pt.assigns():
        if pt.local_name(pl[0]) == 'buf_capacity' and not pl[1]:
            x = d.rvalue(rv, i, j, 0)
            if x[0] == 'bin' and x[1] == 'Add':
                allocs.append((i, line))
    ctx.floor('b', 'datagram_allocation_sites', len(allocs), 1)
    tests = pt.calls_to('PathData::anti_amplification_blocked')
    ctx.floor('b', 'amplification_test_sites', len(tests), 1)
    for t in tests:
        a = arg_desc(F, t, 1)
        ok = D.render(describer(F, pt, stop_named=True).operand(t.args[1], t.bb, term_idx(pt, t.bb))).find('num_datagrams') >= 0 and 'segment_size' in D.render(describer(F, pt, stop_named=True).operand(t.args[1], t.bb, term_idx(pt, t.bb)))
        ctx.check(ok, 'b', 'test_accounts_for_built_datagrams', pt, t.where(), 'segment_size * num_datagrams + 1', 'the amplification test does not account for datagrams already built in this call: ' + D.render(a)[:160])
        for br in branches(F, pt):
            inner, neg = peel_not(br.desc)
            if inner[0] == 'call' and contains_site(inner, t):
                t_blocked = br.target(0 if neg else 1)
                bad = [l for bb, l in allocs if bb in pt.reachable_from(t_blocked, avoid=[br.bb]) or not pt.dominates(br.bb, bb)]
                ctx.check(not bad, 'b', 'allocation_only_when_not_blocked', pt, t.where(), 'every buf_capacity += .. is dominated by the not-blocked edge', 'a datagram can be allocated although the path is amplification-blocked (lines %s)' % bad)
    sl = ctx.pfn('Connection::set_loss_detection_timer')
    tests = sl.calls_to('PathData::anti_amplification_blocked')
    ok = False
    for t in tests:
        for br in branches(F, sl):
            inner, neg = peel_not(br.desc)
            if inner[0] == 'call' and contains_site(inner, t):
                tb = br.target(0 if neg else 1)
                sets = [c.bb for c in sl.calls_to('TimerTable::set') if sl.dominates(br.bb, c.bb)]
                ok = all(s not in sl.reachable_from(tb) for s in sets) and any(c.bb in sl.reachable_from(tb) for c in sl.calls_to('TimerTable::stop'))
    ctx.check(ok, 'b', 'no_pto_while_blocked', sl, sl.where(), 'blocked -> stop(LossDetection), no PTO armed', 'the loss timer can be armed while amplification-blocked (PTO probes would exceed the budget)')


def rule_c(ctx):
    F = ctx.facts
    for w, v in store_values(ctx, PD, 'validated'):
        r = F.root_of(w.body)
        ctx.check(r.short in ('Connection::on_path_validated', 'Connection::process_payload'), 'c', 'validated_writers', r, w.where(), 'validated = true in %s' % r.short, 'PathData.validated written in unexpected function %s' % r.short)
    ctx.floor('c', 'validated_stores', len(store_values(ctx, PD, 'validated')), 2)
    cons = constructions(F, PD, 'PathData', crate='quinn_proto')
    ctx.floor('c', 'path_constructors', len(cons), 2)
    for c in cons:
        d = describer(F, c.body)
        for fld, want in (('validated', '0'), ('total_sent', '0'), ('total_recvd', '0')):
            v = d.operand(c.field_op(fld), c.bb, c.idx)
            ctx.check(v[0] == 'const' and str(v[2]) == want, 'c', 'new_path_starts_unvalidated', F.root_of(c.body), c.where(), '%s: %s' % (fld, D.render(v)),
                      'a new PathData is constructed with %s = %s (must start unvalidated with zeroed amplification counters)' % (fld, D.render(v)[:80]))
    who_may_call(ctx, 'c', 'on_path_validated_callers', ['Connection::on_path_validated'], ['Connection::new', 'Connection::process_decrypted_packet'], floor=2)
    cn = ctx.pfn('Connection::new')
    for c in cn.calls_to('Connection::on_path_validated'):
        brs = [br for br in branches(F, cn, stop_named=True) if peel_not(br.desc)[0][0] == 'local' and peel_not(br.desc)[0][2] == 'path_validated' and cn.dominates(br.bb, c.bb)]
        ctx.check(bool(brs) and all(c.bb not in cn.reachable_from(br.target(0), avoid=[br.bb]) for br in brs), 'c', 'initial_validation_only_with_token', cn, c.where(), 'if path_validated', 'a new connection marks its path validated without a validated token')
    pp = ctx.pfn('Connection::process_payload')
    for w, v in store_values(ctx, PD, 'validated', in_fn=pp):
        def rel(o, a, b):
            return o == 'Ne' and ((D.has_field(a, 'challenge') or D.has_field(b, 'challenge')))
        es = guard_edges(ctx, pp, lambda o, a, b: o == 'Eq' and (D.has_field(a, 'challenge') or D.has_field(b, 'challenge')))
        ok = any(pp.dominates(br.bb, w.bb) and w.bb not in pp.reachable_from(br.target(0 if truth else 1), avoid=[br.bb]) for br, truth, tgt in es)
        ctx.check(ok, 'c', 'path_response_must_match_challenge', pp, w.where(), 'validated = true only if challenge == Some(token)', 'a PATH_RESPONSE validates the path without matching the outstanding challenge')
        es2 = guard_edges(ctx, pp, lambda o, a, b: o == 'Eq' and D.has_param(a, name='remote') | D.has_param(b, name='remote') and (D.has_field(a, 'remote') or D.has_field(b, 'remote')))
        ok2 = any(pp.dominates(br.bb, w.bb) and w.bb not in pp.reachable_from(br.target(0 if truth else 1), avoid=[br.bb]) for br, truth, tgt in es2)
        ctx.check(ok2, 'c', 'path_response_must_come_from_path', pp, w.where(), '&& remote == path.remote', 'a PATH_RESPONSE from another address validates the path')


def rule_d(ctx):
    F = ctx.facts
    who_may_write(ctx, 'd', 'total_sent_writers', PD, 'total_sent', ['Connection::poll_transmit', 'PathData::new', 'PathData::from_previous'], floor=1)
    who_may_write(ctx, 'd', 'total_recvd_writers', PD, 'total_recvd', ['Connection::handle_event', 'Connection::handle_coalesced', 'Connection::handle_first_packet', 'PathData::new', 'PathData::from_previous'], floor=3)
    for w, v in store_values(ctx, PD, 'total_sent'):
        r = F.root_of(w.body)
        if r.short == 'Connection::poll_transmit':
            ok = v[0] == 'call' and v[1] == 'u64::saturating_add' and D.has_field(v[3][0], 'total_sent') and D.has_call(v[3][1], 'Vec::len')
            ctx.check(ok, 'd', 'total_sent_counts_buffer', r, w.where(), D.render(v)[:120], 'total_sent is not raised by buf.len(): ' + D.render(v)[:160])
    he = ctx.pfn('Connection::handle_event')
    for w, v in store_values(ctx, PD, 'total_recvd', in_fn=he):
        x = v[3][1] if v[0] == 'call' and v[1] == 'u64::saturating_add' else v
        ok = v[0] == 'call' and v[1] == 'u64::saturating_add' and D.has_field(x, 'first_decode') and not D.has_field(x, 'remaining') and not ('remaining' in D.render(x))
        ctx.check(ok, 'd', 'first_packet_credited_once', he, w.where(), D.render(v)[:160],
                  'handle_event must credit only the first packet (handle_coalesced credits the remainder): crediting `remaining` here counts those bytes twice: ' + D.render(v)[:200])
    hc = ctx.pfn('Connection::handle_coalesced')
    for w, v in store_values(ctx, PD, 'total_recvd', in_fn=hc):
        ok = v[0] == 'call' and v[1] == 'u64::saturating_add' and D.has_param(v[3][1], name='data')
        ctx.check(ok, 'd', 'coalesced_remainder_credited_once', hc, w.where(), D.render(v)[:120], 'handle_coalesced credit expression changed: ' + D.render(v)[:160])
    ctx.check(len(store_values(ctx, PD, 'total_recvd', in_fn=hc)) == 1 and len(store_values(ctx, PD, 'total_recvd', in_fn=he)) == 1, 'd', 'one_credit_per_function', hc, hc.where(), 'one store each', 'number of total_recvd stores changed')
    who_may_call(ctx, 'd', 'handle_coalesced_callers', ['Connection::handle_coalesced'], ['Connection::handle_event', 'Connection::handle_first_packet'], floor=2)
    hf = ctx.pfn('Connection::handle_first_packet')
    for w, v in store_values(ctx, PD, 'total_recvd', in_fn=hf):
        ok = D.has_field(v, 'header_data') and D.has_field(v, 'payload')
        ctx.check(ok, 'd', 'first_initial_credit', hf, w.where(), D.render(v)[:120], 'first-packet credit is not header_data.len() + payload.len()')


def rule_e(ctx):
    F = ctx.facts
    sr = ctx.pfn('Endpoint::stateless_reset')
    trs = [c for c in constructions(F, 'Transmit', 'Transmit', crate='quinn_proto') if F.root_of(c.body).id == sr.id]
    ctx.floor('e', 'reset_transmit_sites', len(trs), 1)
    # rate limit
    es = bool_edges(ctx, sr, lambda d: d[0] == 'call' and d[1] == 'Option::is_some_and' and D.has_field(d, 'last_stateless_reset'))
    ok = bool(es) and all(all(t.bb not in sr.reachable_from(tgt) for t in trs) for br, truth, tgt in es if truth)
    ctx.check(ok, 'e', 'reset_rate_limited', sr, sr.where(), 'last + min_reset_interval > now -> None', 'stateless resets are no longer rate limited')
    cl = [b for b in F.closures_of(sr)]
    okc = False
    for b in cl:
        for _, x in ret_descs(F, b):
            for y in flat(x):
                if y[0] == 'bin' and y[1] == 'Lt' and D.render(y).find('min_reset_interval') >= 0:
                    okc = True
    ctx.check(okc, 'e', 'reset_interval_relation', sr, sr.where(), 'last + min_reset_interval > now', 'rate limit relation changed')
    st = [w for w in field_writes(F, 'endpoint::Endpoint', 'last_stateless_reset', crate='quinn_proto') if F.root_of(w.body).id == sr.id and w.kind == 'assign']
    ok = bool(st) and all(any(sr.dominates(w.bb, t.bb) for w in st) for t in trs)
    ctx.check(ok, 'e', 'reset_time_recorded', sr, sr.where(), 'last_stateless_reset = Some(now) before sending', 'the time of the last stateless reset is not recorded on the sending path')
    # max_padding_len = headroom - 1 under headroom > MIN_PADDING_LEN
    mp = local_defs_desc(ctx, sr, 'max_padding_len')
    ok = any(y[0] == 'bin' and y[1] == 'Sub' and D.has_const(y[3], 1) and D.has_call(y[2], 'usize::checked_sub') for x in mp for y in flat(x))
    ctx.check(ok, 'e', 'reset_smaller_than_inciting', sr, sr.where(), 'max_padding_len = (inciting - RESET_TOKEN_SIZE) - 1', 'the stateless reset is no longer strictly smaller than the inciting datagram: %s' % [D.render(x)[:100] for x in mp])
    es = guard_edges(ctx, sr, lambda o, a, b: o == 'Lt' and D.has_const(a, 5) and D.has_call(b, 'usize::checked_sub'))
    ctx.check(bool(es), 'e', 'reset_needs_headroom', sr, sr.where(), 'headroom > MIN_PADDING_LEN', 'the minimum-size test of stateless resets is gone')
    pl = local_defs_desc(ctx, sr, 'padding_len')
    mpr = {D.render(y) for x in mp for y in flat(x)}

    def bounded(y):
        if D.render(y) in mpr:
            return True
        if y[0] == 'call' and y[1].endswith('random_range') and len(y[3]) > 1 and y[3][1][0] == 'agg' and 'Range' in y[3][1][2] and len(y[3][1][3]) == 2:
            return D.render(y[3][1][3][1]) in mpr  # exclusive upper end = max_padding_len
        return False
    ok = bool(pl) and all(all(bounded(y) for y in flat(x)) for x in pl)
    ctx.check(ok, 'e', 'padding_bounded_by_max', sr, sr.where(), 'padding_len <= max_padding_len (range ..max_padding_len)', 'padding length no longer bounded by max_padding_len')


def rule_f(ctx):
    F = ctx.facts
    hf = ctx.pfn('Endpoint::handle_first_packet')
    prot = [c.bb for c in hf.calls_to('ServerConfig::initial_keys', 'Session::initial_keys', 'crypto::ServerConfig::initial_keys')] + [c.bb for c in hf.calls_to('Slab::insert')] + \
        [c.bb for c in hf.calls_to('ConnectionIndex::insert_initial_incoming')] + [c.bb for c in hf.calls_to('Endpoint::initial_close')] + \
        [c.bb for c in constructions(F, 'DatagramEvent', 'NewConnection', crate='quinn_proto') if F.root_of(c.body).id == hf.id]
    guard_protects(ctx, 'f', 'short_initial_ignored', hf, lambda o, a, b: o == 'Lt' and D.has_param(a, name='datagram_len') and D.has_const(b, named='MIN_INITIAL_SIZE'), prot, what='datagram_len < MIN_INITIAL_SIZE')
    ctx.floor('f', 'protected_sites', len(prot), 5)
    es = guard_edges(ctx, hf, lambda o, a, b: o == 'Lt' and D.has_param(a, name='datagram_len') and D.has_const(b, named='MIN_INITIAL_SIZE'))
    for br, truth, tgt in es:
        rd = [y for r in hf.return_blocks() if r in hf.reachable_from(tgt, avoid=prot) for y in flat(describer(F, hf).place([0, []], r, term_idx(hf, r)))]
        ctx.check(bool(rd) and any(y[0] == 'agg' and y[2].endswith('None') for y in rd), 'f', 'short_initial_gets_no_reply', hf, br.where(), 'returns None', 'a short Initial produces a reply')


def rule_g(ctx):
    F = ctx.facts
    cons = [c for c in constructions(F, 'Transmit', 'Transmit', crate='quinn_proto')]
    roots_ = sorted({F.root_of(c.body).short for c in cons})
    exp = sorted(['Connection::poll_transmit', 'Connection::send_path_challenge', 'Endpoint::handle', 'Endpoint::stateless_reset', 'Endpoint::initial_close', 'Endpoint::retry'])
    ctx.check(roots_ == exp, 'g', 'transmit_construction_sites', 'Transmit', '', str(roots_), 'Transmit construction sites changed (each must be classified for amplification): %s' % roots_)
    ctx.info('g', 'off-path PATH_RESPONSE (poll_transmit) and PATH_CHALLENGE to the previous path (send_path_challenge) are padded to 1200 bytes and not charged to an amplification budget; they require an authenticated packet from the peer (DESIGN section 7, triage item)')


def run(ctx):
    rule_a(ctx)
    rule_b(ctx)
    rule_c(ctx)
    rule_d(ctx)
    rule_e(ctx)
    rule_f(ctx)
    rule_g(ctx)
