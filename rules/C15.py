"""C15 — path migration keeps the connection and cannot be hijacked (structural part)."""
from engine.rulelib import *
from engine import desc as D

EXPLANATION = ("Static rules over quinn-proto MIR: (a) datagrams from another address are dropped before any processing unless the side permits migration "
               "(clients never); during the handshake packets from another address are dropped before decryption; (b) migrate() is called only from "
               "process_payload under remote != path.remote && !is_probing_packet && number == rx_packet, and is_probing_packet is cleared by every frame "
               "except PADDING/PATH_CHALLENGE/PATH_RESPONSE/NEW_CONNECTION_ID; (c) migrate builds an unvalidated path with a fresh challenge, keeps the old path "
               "as fallback only if that path was not itself under validation (prev.challenge.is_none()), always arms PathValidation and is followed by a CID "
               "switch; (d) PATH_RESPONSE validates only on matching token and address; (e) PathValidation timeout restores the previous path and re-arms loss "
               "detection; (f) every PATH_CHALLENGE is answered (capped), on-path ones also provoke a non-probing packet; (g) in-flight accounting visits the "
               "current and the previous path. Timing of the revert and delivery after migration are NOT decided.")
RULE = "rule instances = (rule, site) pairs over MIR branches / stores / call sites; non-trivial = bound to a real site"
CONN = 'connection::Connection'


# --------------------------------------------------------------------------
# exact-value helpers (the operand IS x, not "mentions x somewhere")
# --------------------------------------------------------------------------

def _is_path_field(d, name):
    """the value IS <connection>.path.<name> (refs / copies / derefs are already erased by the describer)"""
    return d[0] == 'field' and d[2] == name and d[1][0] == 'field' and d[1][2] == 'path'


def _is_param(d, name):
    return d[0] == 'param' and d[2] == name


def _is_event_remote(d):
    """the `remote` field of a destructured event / datagram (rooted at a parameter, not a PathData)"""
    if not (d[0] == 'field' and d[2] == 'remote') or _is_path_field(d, 'remote'):
        return False
    x = d
    while x[0] in ('field', 'variant'):
        x = x[1]
    return x[0] == 'param'


def _addr_rel(want, src=None):
    """relation `want` (Eq/Ne) whose two operands ARE the packet's source address and path.remote themselves:
    `remote.ip() != self.path.remote.ip()`, `remote.port() ..` are different relations"""
    src = src or (lambda d: _is_param(d, 'remote'))
    return lambda o, a, b: o == want and ((src(a) and _is_path_field(b, 'remote')) or (src(b) and _is_path_field(a, 'remote')))


def _arith(d, op):
    """operands of an arithmetic node, primitive (`bin`) or operator-trait form (`<Instant as Add>::add`), else None"""
    if d[0] == 'bin' and d[1] == op:
        return d[2], d[3]
    if d[0] == 'call' and len(d[3]) == 2 and d[1].rsplit('::', 1)[-1] == op.lower() and (' as %s' % op) in d[1]:
        return d[3][0], d[3][1]
    return None


def _enum_switches(F, body, ty_suffix):
    """branches of `body` that switch on the discriminant of a place whose declared type is (a reference to) the enum"""
    out = []
    for br in branches(F, body):
        if br.desc[0] != 'discr':
            continue
        op = body.blocks[br.bb]['t'][1]
        if op[0] not in ('c', 'm') or op[1][1]:
            continue
        for st in reversed(body.blocks[br.bb]['s']):
            if st[0] == '=' and st[1][0] == op[1][0] and not st[1][1] and st[2][0] == 'discr':
                src = st[2][1]
                ty = str(body.locals[src[0]][0]).replace('&mut ', '&').lstrip('&').strip()
                if all(e == '*' for e in src[1]) and (ty == ty_suffix or ty.endswith('::' + ty_suffix)):
                    out.append(br)
                break
    return out


def _variant_discr(F, adt_pat, name):
    return [int(v['discr']) for v in F.adt(adt_pat)['variants'] if v['name'] == name]


def _call_test_edges(F, body, callee):
    """(Branch, target when the call returned true, target when it returned false) for every branch whose condition IS
    the bool result of `callee` (possibly negated, possibly through a temp)"""
    out = []
    for br in branches(F, body):
        inner, neg = peel_not(br.desc)
        if inner[0] == 'call' and D.has_call(('call', inner[1], inner[2], (), inner[4]), callee):
            out.append((br, br.target(0 if neg else 1), br.target(1 if neg else 0)))
    return out


def _option_tests(F, body, pred):
    """(Branch, None-target, Some-target) for every branch that tests the discriminant of an Option value x with pred(x):
    `x.is_none()`, `x.is_some()` (either negated) and `if let None / Some(_) = x` / `match x` are the same test"""
    out = []
    for br in branches(F, body):
        inner, neg = peel_not(br.desc)
        if inner[0] == 'call' and inner[1] in ('Option::is_none', 'Option::is_some') and len(inner[3]) == 1 and pred(inner[3][0]):
            none_when = (inner[1] == 'Option::is_none') != neg      # condition value on which the Option is None
            out.append((br, br.target(1 if none_when else 0), br.target(0 if none_when else 1)))
        elif br.desc[0] == 'discr' and pred(br.desc[1]) and {v for v, _ in br.edges} <= {0, 1, None}:
            out.append((br, br.target(STD_VARIANTS['Option']['None']), br.target(STD_VARIANTS['Option']['Some'])))
    return out


def rule_a(ctx):
    F = ctx.facts
    he = ctx.pfn('Connection::handle_event')
    prot = [c.bb for c in he.calls_to('Connection::handle_decode')] + [w.bb for w in field_writes(F, 'paths::PathData', 'total_recvd', crate='quinn_proto') if F.root_of(w.body).id == he.id and w.kind == 'assign']
    mig = [br for br in branches(F, he) if D.has_call(br.desc, 'ConnectionSide::remote_may_migrate')]
    ne = guard_edges(ctx, he, _addr_rel('Ne', lambda d: _is_event_remote(d) or _is_param(d, 'remote')))
    ok = bool(mig) and bool(ne)
    for br in mig:
        # remote_may_migrate() == false edge reaches no processing
        inner, neg = peel_not(br.desc)
        t_no = br.target(1 if neg else 0)
        if any(p in he.reachable_from(t_no, avoid=[br.bb]) for p in prot) or not all(he.dominates(br.bb, p) or any(he.dominates(b2.bb, p) for b2, _, _ in ne) for p in prot):
            ok = False
    ctx.check(ok, 'a', 'foreign_address_dropped_unless_migration_allowed', he, he.where(), 'remote != path.remote && !remote_may_migrate() -> return before handle_decode', 'datagrams from another address are processed although migration is not permitted')
    rm = ctx.pfn('ConnectionSide::remote_may_migrate')
    rd = [y for _, x in ret_descs(F, rm) for y in flat(x)]
    ok = any(y[0] == 'const' and str(y[2]) == '0' for y in rd) and any(D.has_field(y, 'migration') for y in rd) and len(rd) == 2
    ctx.check(ok, 'a', 'clients_never_follow_migration', rm, rm.where(), 'Client -> false; Server -> server_config.migration', 'remote_may_migrate no longer returns false for clients / the server setting: %s' % [D.render(y) for y in rd])
    hp = ctx.pfn('Connection::handle_packet')
    dec = [c.bb for c in hp.calls_to('Connection::decrypt_packet')]
    # `is_handshaking() && remote != path.remote -> return` in any evaluation order of the two (pure) tests: cut the edges on
    # which the connection is known NOT to be handshaking and the edges on which the address is known to MATCH; what is
    # still reachable from the entry is "handshaking and (address differs or untested)": no decryption may be there
    hs = _call_test_edges(F, hp, 'Connection::is_handshaking')
    ne2 = guard_edges(ctx, hp, _addr_rel('Ne'))
    ok = bool(hs) and bool(ne2) and bool(dec)
    if ok:
        cut = {(br.bb, f) for br, t, f in hs} | {(br.bb, o) for br, truth, tgt in ne2 for o in br.other_targets(1 if truth else 0)}
        ok = not any(p in hp.reachable_from(0, avoid_edges=cut) for p in dec)
    ctx.check(ok, 'a', 'no_migration_during_handshake', hp, hp.where(), 'is_handshaking() && remote != path.remote -> return before decryption', 'handshake packets from another address are processed')


def rule_b(ctx):
    F = ctx.facts
    who_may_call(ctx, 'b', 'migrate_callers', ['Connection::migrate'], ['Connection::process_payload'], floor=1)
    pp = ctx.pfn('Connection::process_payload')
    m = pp.calls_to('Connection::migrate')
    sites = [c.bb for c in m]
    guard_protects(ctx, 'b', 'migrate_only_from_new_address', pp, _addr_rel('Eq'), sites, what='remote == path.remote')
    guard_protects(ctx, 'b', 'migrate_only_for_highest_packet_number', pp, lambda o, a, b: o == 'Ne' and (D.has_param(a, name='number') or D.has_param(b, name='number')) and (D.has_field(a, 'rx_packet') or D.has_field(b, 'rx_packet')), sites, what='number != rx_packet')
    nb = branches(F, pp, stop_named=True)
    pr = [br for br in nb if peel_not(br.desc)[0][0] == 'local' and peel_not(br.desc)[0][2] == 'is_probing_packet']
    ok = bool(pr) and all(any(pp.dominates(br.bb, s) and s not in reach_under(F, pp, {'is_probing_packet': True}, start=br.bb) for br in pr) for s in sites)
    ctx.check(ok, 'b', 'migrate_only_for_non_probing_packets', pp, pp.where(), '!is_probing_packet', 'a probing-only packet can trigger migration')
    # is_probing_packet = false on every frame except the four probing frames: the store is reachable from the frame-kind switch for all but 4 variants
    fr = F.adt('frame::Frame')
    nvar = len(fr['variants'])
    stores = []
    for l, (ty, nm) in enumerate(pp.locals):
        if nm == 'is_probing_packet':
            for df in pp.defs_of(l):
                if df[0] == 'stmt' and df[3][0] == 'use' and df[3][1][0] == 'k' and str(df[3][1][2]) == '0':
                    stores.append(df[1])
    ok = False
    for br in branches(F, pp):
        if br.desc[0] == 'discr' and len(br.edges) >= 3 and any(_short_path(pp, t, s) for s in stores for _, t in br.edges):
            # edges that do NOT lead (directly) to the clearing store
            keep = [v for v, t in br.edges if v is not None and not any(s == t or (s in pp.reachable_from(t, avoid=[br.bb]) and _short_path(pp, t, s)) for s in stores)]
            if len(keep) == 4 or (len(keep) == 3):
                names = {fr['variants'][v]['name'] for v in keep if v < nvar}
                ok = names <= {'Padding', 'PathChallenge', 'PathResponse', 'NewConnectionId'} and len(names) >= 3
    ctx.check(ok and bool(stores), 'b', 'probing_frames_table', pp, pp.where(), 'only Padding/PathChallenge/PathResponse/NewConnectionId keep is_probing_packet', 'the set of probing frames changed')


def _short_path(body, frm, to, limit=3):
    # `to` within a few blocks of `frm` (the match arm body is just the store)
    seen = {frm}
    cur = [frm]
    for _ in range(limit):
        nxt = []
        for b in cur:
            for s in body.succ[b]:
                if s == to:
                    return True
                if s not in seen:
                    seen.add(s)
                    nxt.append(s)
        cur = nxt
    return frm == to


def rule_c(ctx):
    F = ctx.facts
    mg = ctx.pfn('Connection::migrate')
    ok = bool(mg.calls_to('PathData::from_previous')) and bool(mg.calls_to('PathData::new'))
    ctx.check(ok, 'c', 'new_path_constructed_fresh', mg, mg.where(), 'PathData::from_previous | PathData::new', 'migrate no longer builds a new PathData')
    for c in mg.calls_to('PathData::new'):
        a = arg_desc(F, c, 2)
        ctx.check(D.has_field(a, 'max_udp_payload_size') or 'peer_max_udp_payload_size' in D.render(a), 'c', 'new_path_knows_peer_udp_limit', mg, c.where(), D.render(a)[:80], 'the new path is created without the peer max_udp_payload_size')
    ch = [w for w in field_writes(F, 'paths::PathData', 'challenge', crate='quinn_proto') if F.root_of(w.body).id == mg.id and w.kind == 'assign']
    cp = [w for w in field_writes(F, 'paths::PathData', 'challenge_pending', crate='quinn_proto') if F.root_of(w.body).id == mg.id and w.kind == 'assign']
    d = describer(F, mg)
    okc = len(ch) >= 2 and len(cp) >= 2 and all(D.has_call(d.rvalue(w.rv, w.bb, w.idx, 0), 'RngExt::random') or 'random' in D.render(d.rvalue(w.rv, w.bb, w.idx, 0)) for w in ch)
    ctx.check(okc, 'c', 'fresh_random_challenges', mg, mg.where(), 'challenge = Some(rng.random()) for new and previous path', 'migrate no longer issues fresh random challenges for both paths')
    for w in ch:
        v = d.rvalue(w.rv, w.bb, w.idx, 0)
        ctx.check(D.has_field(v, 'rng'), 'c', 'challenge_from_connection_rng', mg, w.where(), D.render(v)[:100], 'challenge token not drawn from the connection rng')
    # fallback path kept only if prev.challenge.is_none()
    pv = [w for w in field_writes(F, CONN, 'prev_path', crate='quinn_proto') if F.root_of(w.body).id == mg.id and w.kind == 'assign']
    # the test of the displaced path's `challenge` Option discriminant, in any spelling (is_none / !is_some / if let None / match)
    tests = _option_tests(F, mg, lambda x: x[0] == 'field' and x[2] == 'challenge' and not _is_path_field(x, 'challenge'))
    ok = bool(pv) and bool(tests) and all(any(mg.dominates(br.bb, w.bb) and w.bb not in mg.reachable_from(some_t, avoid=[br.bb]) for br, none_t, some_t in tests) for w in pv)
    ctx.check(ok, 'c', 'validated_fallback_not_clobbered', mg, mg.where(), 'prev_path = Some(..) only if prev.challenge.is_none()',
              'the fallback path can be overwritten by a path that is itself still under validation (overlapping migrations would revert to an unvalidated address)')
    st = mg.calls_to('TimerTable::set')
    ok = bool(st) and all(must_call(F, mg, ['TimerTable::set'], 0) for _ in [0]) and all(any(n[0] == 'agg' and n[2].endswith('Timer::PathValidation') for n in walk(arg_desc(F, c, 1))) for c in st)
    ctx.check(ok, 'c', 'path_validation_timer_always_armed', mg, mg.where(), 'timers.set(PathValidation, ..) on every path', 'migrate does not always arm the PathValidation timer')
    # the path switch: the store to / `&mut` borrow of self.path itself (mem::replace(&mut self.path, new_path))
    sw = [w for w in field_writes(F, CONN, 'path', crate='quinn_proto') if w.body.id == mg.id and w.kind in ('assign', 'mutborrow', 'callresult')
          and isinstance(w.place[1][-1], list) and w.place[1][-1][0] == 'f' and w.place[1][-1][1] == 'path']
    for c in st:
        a = arg_desc(F, c, 2)
        why = _deadline_shape(mg, a, sw)
        ctx.check(not why, 'c', 'path_validation_deadline', mg, c.where(), 'now + 3 * max(pto, prev_pto)', 'PathValidation deadline is not now + 3 * max(pto of the new path, pto of the previous path): %s: %s' % (why, D.render(a)[:160]))
    pp = ctx.pfn('Connection::process_payload')
    for c in pp.calls_to('Connection::migrate'):
        p = must_follow(F, pp, c.bb, ['Connection::update_rem_cid'], depth=0)
        ctx.check(p is None, 'c', 'migration_switches_remote_cid', pp, c.where(), 'migrate(..) followed by update_rem_cid()', 'migration is not followed by a remote CID switch')


def _deadline_shape(mg, a, sw):
    """'' when the value IS now + 3 * max(pto_a, pto_b) with one Connection::pto() evaluated before the path switch
    (previous path) and the other after it (new path); otherwise the reason"""
    top = _arith(a, 'Add')
    if top is None:
        return 'not a sum'
    x, y = top
    if _is_param(y, 'now'):
        x, y = y, x
    if not _is_param(x, 'now'):
        return 'not based on `now`'
    m = _arith(y, 'Mul')
    if m is None:
        return 'the interval is not a product'
    k, v = m
    if v[0] == 'const':
        k, v = v, k
    if not (k[0] == 'const' and k[1] == 'int' and str(k[2]) == '3' and not D.const_offsets(v)):
        return 'the factor is not 3'
    if not (v[0] == 'call' and v[1].rsplit('::', 1)[-1] == 'max' and len(v[3]) == 2):
        return 'the interval is not 3 * max(.., ..)'
    ptos = [q for q in v[3] if q[0] == 'call' and q[1] == 'Connection::pto']
    if len(ptos) != 2 or ptos[0][4] == ptos[1][4]:
        return 'max() is not taken over two distinct Connection::pto() results'
    if not sw:
        return 'no store to self.path found in migrate'
    b1, b2 = ptos[0][4], ptos[1][4]
    for w in sw:
        before = [b for b in (b1, b2) if b != w.bb and mg.dominates(b, w.bb)]
        after = [b for b in (b1, b2) if mg.dominates(w.bb, b)]
        if len(before) != 1 or len(after) != 1:
            return 'the two pto() values are not one from before and one from after the path switch'
    return ''


def rule_c2(ctx):
    """the new path starts unvalidated with zeroed amplification counters (shared shape with C07.c)"""
    F = ctx.facts
    cons = constructions(F, 'paths::PathData', 'PathData', crate='quinn_proto')
    ctx.floor('c', 'path_constructors', len(cons), 2)
    for c in cons:
        d = describer(F, c.body)
        for fld in ('validated', 'total_sent', 'total_recvd'):
            v = d.operand(c.field_op(fld), c.bb, c.idx)
            ctx.check(v[0] == 'const' and str(v[2]) == '0', 'c', 'migrated_path_starts_unvalidated', F.root_of(c.body), c.where(), '%s: %s' % (fld, D.render(v)),
                      'a new PathData is constructed with %s = %s: sending on the new path would not be limited until validation succeeds' % (fld, D.render(v)[:80]))


def rule_d(ctx):
    F = ctx.facts
    pp = ctx.pfn('Connection::process_payload')
    sites = [w.bb for w in field_writes(F, 'paths::PathData', 'validated', crate='quinn_proto') if F.root_of(w.body).id == pp.id and w.kind == 'assign']
    stops = [c.bb for c in pp.calls_to('TimerTable::stop') if any(n[0] == 'agg' and n[2].endswith('Timer::PathValidation') for n in walk(arg_desc(F, c, 1)))]
    ctx.floor('d', 'validation_success_sites', len(sites) + len(stops), 2)
    def tok(x):
        return x[0] == 'agg' and x[2] == 'option::Option::Some' and len(x[3]) == 1 and x[3][0][0] == 'field' and x[3][0][1][0] == 'variant' and x[3][0][1][2] == 'PathResponse'
    es1 = guard_edges(ctx, pp, lambda o, a, b: o == 'Eq' and ((_is_path_field(a, 'challenge') and tok(b)) or (_is_path_field(b, 'challenge') and tok(a))))
    es2 = guard_edges(ctx, pp, _addr_rel('Eq'))
    for name, es in (('token', es1), ('address', es2)):
        ok = all(any(pp.dominates(br.bb, s) and s not in pp.reachable_from(br.target(0 if truth else 1), avoid=[br.bb]) for br, truth, tgt in es) for s in sites + stops)
        ctx.check(ok and bool(es), 'd', 'path_response_needs_matching_' + name, pp, pp.where(), 'validation success only on matching ' + name, 'PATH_RESPONSE can validate the path without a matching ' + name)


def rule_e(ctx):
    F = ctx.facts
    ht = ctx.pfn('Connection::handle_timeout')
    tk = [c for c in ht.calls_to('Option::take') if D.has_field(arg_desc(F, c, 0), 'prev_path')]
    ctx.check(bool(tk), 'e', 'validation_timeout_takes_fallback', ht, ht.where(), 'prev_path.take()', 'PathValidation timeout no longer takes the fallback path')
    pw = [w for w in field_writes(F, CONN, 'path', crate='quinn_proto') if F.root_of(w.body).id == ht.id and w.kind == 'assign' and w.place[1][-1][1] == 'path']
    d = describer(F, ht)
    ok = bool(pw) and all(any(contains_site(d.rvalue(w.rv, w.bb, w.idx, 0), t) for t in tk) for w in pw)
    ctx.check(ok, 'e', 'validation_timeout_restores_previous_path', ht, ht.where(), 'self.path = prev', 'the previous path is not restored when validation times out')
    for w in pw:
        p = must_follow(F, ht, w.bb, ['Connection::set_loss_detection_timer'], depth=0)
        # the for-loop continues; require the call to be in the same arm: dominated-by relation
        sl = [c for c in ht.calls_to('Connection::set_loss_detection_timer') if ht.dominates(w.bb, c.bb)]
        ctx.check(bool(sl), 'e', 'restored_path_rearms_loss_timer', ht, w.where(), 'set_loss_detection_timer after restoring', 'loss detection is not re-armed after reverting to the previous path')
    # self.path.challenge = None on EVERY path through the Timer::PathValidation arm (fallback or not), after any restore of self.path
    pvd = _variant_discr(F, 'timer::Timer', 'PathValidation')
    tsw = [br for br in _enum_switches(F, ht, 'timer::Timer') if pvd and any(v == pvd[0] for v, _ in br.edges)]
    cl = [w for w, v in store_values(ctx, 'paths::PathData', 'challenge', in_fn=ht)
          if w.body.id == ht.id and _is_path_field(d.place(w.place, w.bb, w.idx), 'challenge') and v[0] == 'agg' and v[2] == 'option::Option::None']
    cb = {w.bb for w in cl}
    goals = set(ht.return_blocks()) | {br.bb for br in tsw}
    why = ''
    if not tsw:
        why = 'no match on Timer with a PathValidation arm found in handle_timeout'
    elif not cl:
        why = 'no store self.path.challenge = None'
    for br in tsw:
        pth = path_avoiding(ht, [br.target(pvd[0])], goals, cb)
        if pth is not None and not why:
            why = 'a path through the PathValidation arm skips the store: ' + fmt_path(ht, pth)
    for w in pw:
        if w.body.id == ht.id and not any(c.bb == w.bb and c.idx > w.idx for c in cl):
            pth = path_avoiding(ht, ht.succ[w.bb], goals, cb)
            if pth is not None and not why:
                why = 'the restored path keeps its challenge (no clearing store after self.path = prev): ' + fmt_path(ht, pth)
    ctx.check(not why, 'e', 'validation_timeout_clears_challenge', ht, ht.where(), 'path.challenge = None on every path of the PathValidation arm', 'the outstanding challenge is not always cleared on timeout: ' + why)


def rule_f(ctx):
    F = ctx.facts
    pp = ctx.pfn('Connection::process_payload')
    ps = pp.calls_to('PathResponses::push')
    ctx.floor('f', 'challenge_response_queue_sites', len(ps), 1)
    pcd = _variant_discr(F, 'frame::Frame', 'PathChallenge')
    on_path = guard_edges(ctx, pp, _addr_rel('Eq'))
    prov = {x.bb for x in pp.calls_to('Connection::immediate_ack', 'Connection::ping')}
    for c in ps:
        ok = all(_is_param(x, 'remote') for x in flat(arg_desc(F, c, 3))) and all(_is_param(x, 'number') for x in flat(arg_desc(F, c, 1)))
        ctx.check(ok, 'f', 'response_addressed_to_challenger', pp, c.where(), 'push(number, token, remote)', 'the PATH_RESPONSE is not queued for the address the challenge came from')
        # the match arm the challenge is handled in: the Frame switch whose PathChallenge edge (and no other) leads to the push
        arms = [br for br in _enum_switches(F, pp, 'frame::Frame') if pcd and any(v == pcd[0] for v, _ in br.edges)
                and c.bb in pp.reachable_from(br.target(pcd[0]), avoid=[br.bb])
                and not any(c.bb in pp.reachable_from(t, avoid=[br.bb]) for _, t in br.edges if t != br.target(pcd[0]))]
        why = '' if arms else 'no Frame::PathChallenge match arm leading to the push found'
        for arm in arms:
            t0 = arm.target(pcd[0])
            region = pp.reachable_from(t0, avoid=[arm.bb])
            goals = set(pp.return_blocks()) | {arm.bb}
            gs = [(br, truth, tgt) for br, truth, tgt in on_path if br.bb in region and pp.dominates(t0, br.bb)]
            # on the edge where remote == path.remote holds, every path provokes a packet before the frame is done
            for br, truth, tgt in gs:
                pth = path_avoiding(pp, [tgt], goals, prov)
                if pth is not None:
                    why = why or 'on the `remote == path.remote` edge a path reaches the next frame without immediate_ack()/ping(): ' + fmt_path(pp, pth)
            # and the test cannot be bypassed (no test at all is fine only if every path provokes)
            pth = path_avoiding(pp, [t0], goals, prov | {br.bb for br, _, _ in gs})
            if pth is not None:
                why = why or 'a path through the arm neither evaluates `remote == path.remote` nor provokes a packet: ' + fmt_path(pp, pth)
        ctx.check(not why, 'f', 'on_path_challenge_provokes_non_probing_packet', pp, c.where(), 'immediate_ack()/ping() when remote == path.remote', 'an on-path PATH_CHALLENGE no longer provokes a non-probing packet: ' + why)
    pr = ctx.pfn('PathResponses::push')
    why = _dedup_by_remote(F, pr)
    ctx.check(not why, 'f', 'one_response_per_remote', pr, pr.where(), 'existing entry for the remote is updated', 'PathResponses no longer keeps one entry per remote: ' + why)


def _dedup_by_remote(F, pr):
    """'' when push() looks an existing entry up by `entry.remote == remote` and queues a new one only when none was found"""
    finds = [c for c in pr.calls() if c.bb in pr.live_blocks() and short(c.f).rsplit('::', 1)[-1] == 'find' and D.has_field(arg_desc(F, c, 0), 'pending')]
    if not finds:
        return 'no lookup (find) over self.pending'
    vp = [c.bb for c in pr.calls_to('Vec::push') if D.has_field(arg_desc(F, c, 0), 'pending')]
    if not vp:
        return 'no Vec::push on self.pending'
    for c in finds:
        cls = closure_args(F, c)
        caps = [x for x in walk(arg_desc(F, c, 1)) if x[0] == 'agg' and x[1] == 'closure']
        def cap_remote(a):
            # the captured value is the `remote` parameter, or the new PathResponse{.., remote} built from it
            if a[0] == 'agg' and a[1] == 'adt' and len(a) > 4 and 'remote' in a[4]:
                a = a[3][a[4].index('remote')]
            return _is_param(a, 'remote')
        if not cls or not caps or not all(any(cap_remote(a) for a in x[3]) for x in caps):
            return 'the lookup predicate does not capture the `remote` parameter'
        for cb in cls:
            rets = [y for _, x in ret_descs(F, cb) for y in flat(x)]
            if not rets:
                return 'lookup predicate has no return value'
            for y in rets:
                rel = relation_on(y, True)
                if rel is None or rel[0] != 'Eq':
                    return 'the lookup predicate is not an equality: ' + D.render(y)[:80]
                a, b = rel[1], rel[2]
                if not (b[0] == 'upvar' or (b[0] == 'field' and b[1][0] == 'upvar')):
                    a, b = b, a
                cap = b == ('upvar', 'remote') or (b[0] == 'field' and b[2] == 'remote' and b[1][0] == 'upvar')
                if not (cap and a[0] == 'field' and a[2] == 'remote' and a[1][0] == 'param'):
                    return 'the lookup predicate compares %s, not entry.remote == remote' % D.render(y)[:80]
        # found -> no new entry: the Some edge of the lookup result never reaches Vec::push, and the test dominates every push
        brs = [br for br in branches(F, pr) if br.desc[0] == 'discr' and is_site(br.desc[1], c)]
        if not brs:
            return 'the lookup result is not tested'
        for p in vp:
            if not any(pr.dominates(br.bb, p) and p not in pr.reachable_from(br.target(1), avoid=[br.bb]) for br in brs):
                return 'a new entry is pushed even when one exists for the remote'
    return ''


def rule_g(ctx):
    F = ctx.facts
    rif = ctx.pfn('Connection::remove_in_flight')
    d = describer(F, rif)
    uses_prev = any(D.has_field(d.rvalue(rv, i, j, 0), 'prev_path') for i, j, pl, rv, line in rif.assigns()) or any(D.has_field(arg_desc(F, c, k), 'prev_path') for c in rif.calls() for k in range(len(c.args)))
    uses_cur = any(any(e[1] == 'path' for e in rv[2][1] if isinstance(e, list) and e[0] == 'f') for i, j, pl, rv, line in rif.assigns() if rv[0] == 'ref')
    ctx.check(uses_prev and uses_cur, 'g', 'in_flight_removed_from_either_path', rif, rif.where(), 'visits self.path then self.prev_path',
              'remove_in_flight no longer visits the previous path: packets sent before a migration are never subtracted from its in-flight counters')
    cs = rif.calls_to('PathData::remove_in_flight')
    ctx.check(bool(cs), 'g', 'delegates_to_path', rif, rif.where(), 'PathData::remove_in_flight', 'no delegation')


def run(ctx):
    rule_a(ctx)
    rule_b(ctx)
    rule_c(ctx)
    rule_c2(ctx)
    rule_d(ctx)
    rule_e(ctx)
    rule_f(ctx)
    rule_g(ctx)
    # obligations shared with a sibling property (evaluated by the owning module, reported here under letter x)
    from engine.rulelib import share as _share
    _share(ctx, 'C12', '_path_generation', 'x', 'every path gets a fresh generation: packets of an aborted path must not be charged to the next path (the migrated connection would stall)')

