"""C15 — path migration keeps the connection and cannot be hijacked (structural part)."""
from engine.rulelib import *
from engine import desc as D

EXPLANATION = ("Static rules over quinn-proto MIR: (a) datagrams from another address are dropped before any processing unless the side permits migration "
               "(clients never); during the handshake packets from another address are dropped before decryption; (b) migrate() is called only from "
               "process_payload under remote != path.remote && !is_probing_packet && number == rx_packet, and is_probing_packet is cleared by every frame "
               "except PADDING/PATH_CHALLENGE/PATH_RESPONSE/NEW_CONNECTION_ID; (c) migrate builds an unvalidated path with a fresh challenge, keeps the old path "
               "as fallback only if that path was not itself under validation (prev.challenge.is_none()), always arms PathValidation and is followed by a CID "
               "switch; (d) PATH_RESPONSE validates only on matching token and address; (e) PathValidation timeout restores the previous path and re-arms loss "
               "detection; (f) every PATH_CHALLENGE is answered (capped), on-path ones also provoke a non-probing packet; (g) in-flight accounting visits the "
               "current and the previous path. Timing of the revert and delivery after migration are NOT decided.")
RULE = "rule instances = (rule, site) pairs over MIR branches / stores / call sites; non-trivial = bound to a real site"
CONN = 'connection::Connection'


def rule_a(ctx):
    F = ctx.facts
    he = ctx.pfn('Connection::handle_event')
    prot = [c.bb for c in he.calls_to('Connection::handle_decode')] + [w.bb for w in field_writes(F, 'paths::PathData', 'total_recvd', crate='quinn_proto') if F.root_of(w.body).id == he.id and w.kind == 'assign']
    mig = [br for br in branches(F, he) if D.has_call(br.desc, 'ConnectionSide::remote_may_migrate')]
    ne = guard_edges(ctx, he, lambda o, a, b: o == 'Ne' and (D.has_field(a, 'remote') or D.has_field(b, 'remote')))
    ok = bool(mig) and bool(ne)
    for br in mig:
        # remote_may_migrate() == false edge reaches no processing
        inner, neg = peel_not(br.desc)
        t_no = br.target(1 if neg else 0)
        if any(p in he.reachable_from(t_no, avoid=[br.bb]) for p in prot) or not all(he.dominates(br.bb, p) or any(he.dominates(b2.bb, p) for b2, _, _ in ne) for p in prot):
            ok = False
    ctx.check(ok, 'a', 'foreign_address_dropped_unless_migration_allowed', he, he.where(), 'remote != path.remote && !remote_may_migrate() -> return before handle_decode', 'datagrams from another address are processed although migration is not permitted')
    rm = ctx.pfn('ConnectionSide::remote_may_migrate')
    rd = [y for _, x in ret_descs(F, rm) for y in flat(x)]
    ok = any(y[0] == 'const' and str(y[2]) == '0' for y in rd) and any(D.has_field(y, 'migration') for y in rd) and len(rd) == 2
    ctx.check(ok, 'a', 'clients_never_follow_migration', rm, rm.where(), 'Client -> false; Server -> server_config.migration', 'remote_may_migrate no longer returns false for clients / the server setting: %s' % [D.render(y) for y in rd])
    hp = ctx.pfn('Connection::handle_packet')
    dec = [c.bb for c in hp.calls_to('Connection::decrypt_packet')]
    hs = [br for br in branches(F, hp) if D.has_call(br.desc, 'Connection::is_handshaking')]
    ne2 = guard_edges(ctx, hp, lambda o, a, b: o == 'Ne' and (D.has_param(a, name='remote') or D.has_param(b, name='remote')) and (D.has_field(a, 'remote') or D.has_field(b, 'remote')))
    ok = bool(hs) and bool(ne2) and bool(dec)
    if ok:
        ok = False
        for h in hs:
            for br, truth, tgt in ne2:
                # the address test is evaluated on the is_handshaking() == true side, before decryption, and its mismatch edge returns
                if all(hp.dominates(h.bb, p) for p in dec) and br.bb in hp.reachable_from(h.target(1), avoid=dec) and all(p not in hp.reachable_from(tgt, avoid=[br.bb]) for p in dec):
                    ok = True
    ctx.check(ok, 'a', 'no_migration_during_handshake', hp, hp.where(), 'is_handshaking() && remote != path.remote -> return before decryption', 'handshake packets from another address are processed')


def rule_b(ctx):
    F = ctx.facts
    who_may_call(ctx, 'b', 'migrate_callers', ['Connection::migrate'], ['Connection::process_payload'], floor=1)
    pp = ctx.pfn('Connection::process_payload')
    m = pp.calls_to('Connection::migrate')
    sites = [c.bb for c in m]
    guard_protects(ctx, 'b', 'migrate_only_from_new_address', pp, lambda o, a, b: o == 'Eq' and (D.has_param(a, name='remote') or D.has_param(b, name='remote')) and (D.has_field(a, 'remote') or D.has_field(b, 'remote')), sites, what='remote == path.remote')
    guard_protects(ctx, 'b', 'migrate_only_for_highest_packet_number', pp, lambda o, a, b: o == 'Ne' and (D.has_param(a, name='number') or D.has_param(b, name='number')) and (D.has_field(a, 'rx_packet') or D.has_field(b, 'rx_packet')), sites, what='number != rx_packet')
    nb = branches(F, pp, stop_named=True)
    pr = [br for br in nb if peel_not(br.desc)[0][0] == 'local' and peel_not(br.desc)[0][2] == 'is_probing_packet']
    ok = bool(pr) and all(any(pp.dominates(br.bb, s) and s not in reach_under(F, pp, {'is_probing_packet': True}, start=br.bb) for br in pr) for s in sites)
    ctx.check(ok, 'b', 'migrate_only_for_non_probing_packets', pp, pp.where(), '!is_probing_packet', 'a probing-only packet can trigger migration')
    # is_probing_packet = false on every frame except the four probing frames: the store is reachable from the frame-kind switch for all but 4 variants
    fr = F.adt('frame::Frame')
    nvar = len(fr['variants'])
    stores = []
    for l, (ty, nm) in enumerate(pp.locals):
        if nm == 'is_probing_packet':
            for df in pp.defs_of(l):
                if df[0] == 'stmt' and df[3][0] == 'use' and df[3][1][0] == 'k' and str(df[3][1][2]) == '0':
                    stores.append(df[1])
    ok = False
    for br in branches(F, pp):
        if br.desc[0] == 'discr' and len(br.edges) >= 3 and any(_short_path(pp, t, s) for s in stores for _, t in br.edges):
            # edges that do NOT lead (directly) to the clearing store
            keep = [v for v, t in br.edges if v is not None and not any(s == t or (s in pp.reachable_from(t, avoid=[br.bb]) and _short_path(pp, t, s)) for s in stores)]
            if len(keep) == 4 or (len(keep) == 3):
                names = {fr['variants'][v]['name'] for v in keep if v < nvar}
                ok = names <= {'Padding', 'PathChallenge', 'PathResponse', 'NewConnectionId'} and len(names) >= 3
    ctx.check(ok and bool(stores), 'b', 'probing_frames_table', pp, pp.where(), 'only Padding/PathChallenge/PathResponse/NewConnectionId keep is_probing_packet', 'the set of probing frames changed')


def _short_path(body, frm, to, limit=3):
    # `to` within a few blocks of `frm` (the match arm body is just the store)
    seen = {frm}
    cur = [frm]
    for _ in range(limit):
        nxt = []
        for b in cur:
            for s in body.succ[b]:
                if s == to:
                    return True
                if s not in seen:
                    seen.add(s)
                    nxt.append(s)
        cur = nxt
    return frm == to


def rule_c(ctx):
    F = ctx.facts
    mg = ctx.pfn('Connection::migrate')
    ok = bool(mg.calls_to('PathData::from_previous')) and bool(mg.calls_to('PathData::new'))
    ctx.check(ok, 'c', 'new_path_constructed_fresh', mg, mg.where(), 'PathData::from_previous | PathData::new', 'migrate no longer builds a new PathData')
    for c in mg.calls_to('PathData::new'):
        a = arg_desc(F, c, 2)
        ctx.check(D.has_field(a, 'max_udp_payload_size') or 'peer_max_udp_payload_size' in D.render(a), 'c', 'new_path_knows_peer_udp_limit', mg, c.where(), D.render(a)[:80], 'the new path is created without the peer max_udp_payload_size')
    ch = [w for w in field_writes(F, 'paths::PathData', 'challenge', crate='quinn_proto') if F.root_of(w.body).id == mg.id and w.kind == 'assign']
    cp = [w for w in field_writes(F, 'paths::PathData', 'challenge_pending', crate='quinn_proto') if F.root_of(w.body).id == mg.id and w.kind == 'assign']
    d = describer(F, mg)
    okc = len(ch) >= 2 and len(cp) >= 2 and all(D.has_call(d.rvalue(w.rv, w.bb, w.idx, 0), 'RngExt::random') or 'random' in D.render(d.rvalue(w.rv, w.bb, w.idx, 0)) for w in ch)
    ctx.check(okc, 'c', 'fresh_random_challenges', mg, mg.where(), 'challenge = Some(rng.random()) for new and previous path', 'migrate no longer issues fresh random challenges for both paths')
    for w in ch:
        v = d.rvalue(w.rv, w.bb, w.idx, 0)
        ctx.check(D.has_field(v, 'rng'), 'c', 'challenge_from_connection_rng', mg, w.where(), D.render(v)[:100], 'challenge token not drawn from the connection rng')
    # fallback path kept only if prev.challenge.is_none()
    pv = [w for w in field_writes(F, CONN, 'prev_path', crate='quinn_proto') if F.root_of(w.body).id == mg.id and w.kind == 'assign']
    brs = [br for br in branches(F, mg) if br.desc[0] == 'call' and br.desc[1] == 'Option::is_none' and D.has_field(br.desc, 'challenge')]
    ok = bool(pv) and bool(brs) and all(all(mg.dominates(br.bb, w.bb) and w.bb not in mg.reachable_from(br.target(0), avoid=[br.bb]) for w in pv) for br in brs)
    ctx.check(ok, 'c', 'validated_fallback_not_clobbered', mg, mg.where(), 'prev_path = Some(..) only if prev.challenge.is_none()',
              'the fallback path can be overwritten by a path that is itself still under validation (overlapping migrations would revert to an unvalidated address)')
    st = mg.calls_to('TimerTable::set')
    ok = bool(st) and all(must_call(F, mg, ['TimerTable::set'], 0) for _ in [0]) and all(any(n[0] == 'agg' and n[2].endswith('Timer::PathValidation') for n in walk(arg_desc(F, c, 1))) for c in st)
    ctx.check(ok, 'c', 'path_validation_timer_always_armed', mg, mg.where(), 'timers.set(PathValidation, ..) on every path', 'migrate does not always arm the PathValidation timer')
    for c in st:
        a = arg_desc(F, c, 2)
        ok = D.has_param(a, name='now') and D.has_const(a, 3) and D.has_call(a, 'Connection::pto')
        ctx.check(ok, 'c', 'path_validation_deadline', mg, c.where(), 'now + 3 * max(pto, prev_pto)', 'PathValidation deadline expression changed: ' + D.render(a)[:160])
    pp = ctx.pfn('Connection::process_payload')
    for c in pp.calls_to('Connection::migrate'):
        p = must_follow(F, pp, c.bb, ['Connection::update_rem_cid'], depth=0)
        ctx.check(p is None, 'c', 'migration_switches_remote_cid', pp, c.where(), 'migrate(..) followed by update_rem_cid()', 'migration is not followed by a remote CID switch')


def rule_c2(ctx):
    """the new path starts unvalidated with zeroed amplification counters (shared shape with C07.c)"""
    F = ctx.facts
    cons = constructions(F, 'paths::PathData', 'PathData', crate='quinn_proto')
    ctx.floor('c', 'path_constructors', len(cons), 2)
    for c in cons:
        d = describer(F, c.body)
        for fld in ('validated', 'total_sent', 'total_recvd'):
            v = d.operand(c.field_op(fld), c.bb, c.idx)
            ctx.check(v[0] == 'const' and str(v[2]) == '0', 'c', 'migrated_path_starts_unvalidated', F.root_of(c.body), c.where(), '%s: %s' % (fld, D.render(v)),
                      'a new PathData is constructed with %s = %s: sending on the new path would not be limited until validation succeeds' % (fld, D.render(v)[:80]))


def rule_d(ctx):
    F = ctx.facts
    pp = ctx.pfn('Connection::process_payload')
    sites = [w.bb for w in field_writes(F, 'paths::PathData', 'validated', crate='quinn_proto') if F.root_of(w.body).id == pp.id and w.kind == 'assign']
    stops = [c.bb for c in pp.calls_to('TimerTable::stop') if any(n[0] == 'agg' and n[2].endswith('Timer::PathValidation') for n in walk(arg_desc(F, c, 1)))]
    ctx.floor('d', 'validation_success_sites', len(sites) + len(stops), 2)
    es1 = guard_edges(ctx, pp, lambda o, a, b: o == 'Eq' and (D.has_field(a, 'challenge') or D.has_field(b, 'challenge')))
    es2 = guard_edges(ctx, pp, lambda o, a, b: o == 'Eq' and (D.has_param(a, name='remote') or D.has_param(b, name='remote')) and (D.has_field(a, 'remote') or D.has_field(b, 'remote')))
    for name, es in (('token', es1), ('address', es2)):
        ok = all(any(pp.dominates(br.bb, s) and s not in pp.reachable_from(br.target(0 if truth else 1), avoid=[br.bb]) for br, truth, tgt in es) for s in sites + stops)
        ctx.check(ok and bool(es), 'd', 'path_response_needs_matching_' + name, pp, pp.where(), 'validation success only on matching ' + name, 'PATH_RESPONSE can validate the path without a matching ' + name)


def rule_e(ctx):
    F = ctx.facts
    ht = ctx.pfn('Connection::handle_timeout')
    tk = [c for c in ht.calls_to('Option::take') if D.has_field(arg_desc(F, c, 0), 'prev_path')]
    ctx.check(bool(tk), 'e', 'validation_timeout_takes_fallback', ht, ht.where(), 'prev_path.take()', 'PathValidation timeout no longer takes the fallback path')
    pw = [w for w in field_writes(F, CONN, 'path', crate='quinn_proto') if F.root_of(w.body).id == ht.id and w.kind == 'assign' and w.place[1][-1][1] == 'path']
    d = describer(F, ht)
    ok = bool(pw) and all(any(contains_site(d.rvalue(w.rv, w.bb, w.idx, 0), t) for t in tk) for w in pw)
    ctx.check(ok, 'e', 'validation_timeout_restores_previous_path', ht, ht.where(), 'self.path = prev', 'the previous path is not restored when validation times out')
    for w in pw:
        p = must_follow(F, ht, w.bb, ['Connection::set_loss_detection_timer'], depth=0)
        # the for-loop continues; require the call to be in the same arm: dominated-by relation
        sl = [c for c in ht.calls_to('Connection::set_loss_detection_timer') if ht.dominates(w.bb, c.bb)]
        ctx.check(bool(sl), 'e', 'restored_path_rearms_loss_timer', ht, w.where(), 'set_loss_detection_timer after restoring', 'loss detection is not re-armed after reverting to the previous path')
    cl = [w for w in field_writes(F, 'paths::PathData', 'challenge', crate='quinn_proto') if F.root_of(w.body).id == ht.id and w.kind == 'assign']
    ctx.check(bool(cl), 'e', 'validation_timeout_clears_challenge', ht, ht.where(), 'path.challenge = None', 'the outstanding challenge is not cleared on timeout')


def rule_f(ctx):
    F = ctx.facts
    pp = ctx.pfn('Connection::process_payload')
    ps = pp.calls_to('PathResponses::push')
    ctx.floor('f', 'challenge_response_queue_sites', len(ps), 1)
    for c in ps:
        ok = D.has_param(arg_desc(F, c, 3), name='remote') and D.has_param(arg_desc(F, c, 1), name='number')
        ctx.check(ok, 'f', 'response_addressed_to_challenger', pp, c.where(), 'push(number, token, remote)', 'the PATH_RESPONSE is not queued for the address the challenge came from')
        im = [x for x in pp.calls_to('Connection::immediate_ack', 'Connection::ping') if pp.dominates(c.bb, x.bb)]
        ctx.check(len(im) >= 2, 'f', 'on_path_challenge_provokes_non_probing_packet', pp, c.where(), 'immediate_ack()/ping() when remote == path.remote', 'an on-path PATH_CHALLENGE no longer provokes a non-probing packet')
    pr = ctx.pfn('PathResponses::push')
    ctx.check(bool(pr.calls_to('Iterator::find')) or bool([c for c in pr.calls() if short(c.f).endswith('::find')]), 'f', 'one_response_per_remote', pr, pr.where(), 'existing entry for the remote is updated', 'PathResponses no longer keeps one entry per remote')


def rule_g(ctx):
    F = ctx.facts
    rif = ctx.pfn('Connection::remove_in_flight')
    d = describer(F, rif)
    uses_prev = any(D.has_field(d.rvalue(rv, i, j, 0), 'prev_path') for i, j, pl, rv, line in rif.assigns()) or any(D.has_field(arg_desc(F, c, k), 'prev_path') for c in rif.calls() for k in range(len(c.args)))
    uses_cur = any(any(e[1] == 'path' for e in rv[2][1] if isinstance(e, list) and e[0] == 'f') for i, j, pl, rv, line in rif.assigns() if rv[0] == 'ref')
    ctx.check(uses_prev and uses_cur, 'g', 'in_flight_removed_from_either_path', rif, rif.where(), 'visits self.path then self.prev_path',
              'remove_in_flight no longer visits the previous path: packets sent before a migration are never subtracted from its in-flight counters')
    cs = rif.calls_to('PathData::remove_in_flight')
    ctx.check(bool(cs), 'g', 'delegates_to_path', rif, rif.where(), 'PathData::remove_in_flight', 'no delegation')


def run(ctx):
    rule_a(ctx)
    rule_b(ctx)
    rule_c(ctx)
    rule_c2(ctx)
    rule_d(ctx)
    rule_e(ctx)
    rule_f(ctx)
    rule_g(ctx)
