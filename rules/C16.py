"""C16 — unreliable datagrams (structural part)."""
from engine.rulelib import *
from engine import desc as D

EXPLANATION = ("Static rules over quinn-proto MIR: (a) Datagrams::send admission guards: Disabled / UnsupportedByPeer / TooLarge iff len > min(max_size, send_buffer_size) "
               "/ Blocked iff no buffer space (sets send_blocked); the queue and outgoing_total change only on the accepting edge; has_send_buffer_space is "
               "checked_add(total, len) <= size; send_buffer_space is size (-) outgoing_total; (b) max_size expression tied to the current MTU, the 1-RTT overhead computed "
               "from the *remote* CID length, and the peer limit; (c) queue direction: oldest-first eviction and delivery (pop_front), append with push_back, a datagram "
               "that does not fit goes back to the front; (d) black-hole and unblock events; (e) datagrams enter packets only whole through DatagramState::write under "
               "its size guard, are never recorded for retransmission, and received frames are pushed whole; (f) byte accounting of recv_buffered / outgoing_total at "
               "every queue mutation. Byte identity end-to-end is NOT decided.")
RULE = "rule instances = (rule, site) pairs over MIR branches / stores / call sites; non-trivial = bound to a real site"
DS = 'datagrams::DatagramState'


def rule_a(ctx):
    F = ctx.facts
    sd = ctx.pfn('Datagrams::send')
    push = [c.bb for c in sd.calls_to('VecDeque::push_back')]
    tot = [w.bb for w in field_writes(F, DS, 'outgoing_total', crate='quinn_proto') if F.root_of(w.body).id == sd.id and w.kind == 'assign']
    prot = push + tot
    ctx.floor('a', 'accepting_sites', len(prot), 2)
    for var in ('Disabled', 'UnsupportedByPeer', 'TooLarge', 'Blocked'):
        cons = [c for c in constructions(F, 'SendDatagramError', var, crate='quinn_proto') if F.root_of(c.body).id == sd.id]
        ctx.check(bool(cons), 'a', 'send_error_' + var.lower(), sd, sd.where(), 'Err(%s) exit present' % var, 'Datagrams::send lost its %s exit' % var)
    guard_error(ctx, 'a', 'too_large_relation', sd, lambda o, a, b: o == 'Lt' and a[0] == 'call' and a[1].endswith('::min') and D.has_call(a, 'Datagrams::max_size') and D.has_field(a, 'datagram_send_buffer_size') and D.has_call(b, 'Bytes::len'),
                variant=('SendDatagramError', 'TooLarge'), protect=prot, what='len > min(max_size, send_buffer_size)')
    # blocked: !has_send_buffer_space
    hs = sd.calls_to('DatagramState::has_send_buffer_space')
    ok = False
    for c in hs:
        for br in branches(F, sd):
            inner, neg = peel_not(br.desc)
            if inner[0] == 'call' and contains_site(inner, c):
                t_no = br.target(1 if neg else 0)
                eff = effect_blocks(ctx, sd, variant=('SendDatagramError', 'Blocked'))
                ok = path_avoiding(sd, [t_no], set(sd.return_blocks()) | set(prot), eff) is None
                sb = [w for w in field_writes(F, DS, 'send_blocked', crate='quinn_proto') if F.root_of(w.body).id == sd.id and w.kind == 'assign']
                ok = ok and bool(sb) and all(w.bb in sd.reachable_from(t_no) for w in sb)
    ctx.check(ok, 'a', 'blocked_iff_no_space', sd, sd.where(), '!has_send_buffer_space -> send_blocked = true; Err(Blocked)', 'the Blocked outcome no longer follows has_send_buffer_space / does not record send_blocked')
    hb = ctx.pfn('DatagramState::has_send_buffer_space')
    rd = [y for _, x in ret_descs(F, hb) for y in flat(x)]
    ok = any(y[0] == 'bin' and y[1] == 'Le' and D.has_call(y[2], 'usize::checked_add') and D.has_param(y[3], name='send_buffer_size') for y in rd) and any(y[0] == 'const' and str(y[2]) == '0' for y in rd)
    ctx.check(ok, 'a', 'buffer_space_relation', hb, hb.where(), 'checked_add(outgoing_total, len) <= send_buffer_size (overflow -> false)', 'has_send_buffer_space relation changed: %s' % [D.render(y)[:80] for y in rd])
    sp = ctx.pfn('Datagrams::send_buffer_space')
    rd = [y for _, x in ret_descs(F, sp) for y in flat(x)]
    ok = all(y[0] == 'call' and y[1] == 'usize::saturating_sub' and D.has_field(y[3][0], 'datagram_send_buffer_size') and D.has_field(y[3][1], 'outgoing_total') for y in rd)
    ctx.check(ok and rd, 'a', 'send_buffer_space_expression', sp, sp.where(), 'send_buffer_size.saturating_sub(outgoing_total)', 'send_buffer_space expression changed')


def rule_b(ctx):
    F = ctx.facts
    ms = ctx.pfn('Datagrams::max_size')
    rd = [y for _, x in ret_descs(F, ms) for y in flat(x)]
    ok = False
    for y in rd:
        if y[0] == 'agg' and y[2].endswith('Some'):
            v = y[3][0]
            ok = v[0] == 'call' and v[1].endswith('::min') and D.has_call(v, 'PathData::current_mtu') and D.has_call(v, 'Connection::predict_1rtt_overhead') and D.has_field(v, 'max_datagram_frame_size')
            subs = [n for n in walk(v) if n[0] == 'bin' and n[1] == 'Sub']
            ok = ok and len(subs) >= 2 and D.has_call(v, 'u64::saturating_sub')
    ctx.check(ok, 'b', 'max_size_expression', ms, ms.where(), 'min(peer_limit (-) SIZE_BOUND, current_mtu - overhead - SIZE_BOUND)', 'Datagrams::max_size expression changed')
    po = ctx.pfn('Connection::predict_1rtt_overhead')
    rd = [y for _, x in ret_descs(F, po) for y in flat(x)]
    ok = all(D.has_field(y, 'rem_cids') and D.has_call(y, 'CidQueue::active') and D.has_call(y, 'Connection::tag_len_1rtt') and not D.has_field(y, 'local_cid_state') for y in rd) and bool(rd)
    ctx.check(ok, 'b', 'overhead_uses_remote_cid_length', po, po.where(), '1 + rem_cids.active().len() + pn_len + tag_len', 'the 1-RTT overhead is not computed from the remote (destination) CID length: max_size would be wrong when CID lengths differ')


def rule_c(ctx):
    F = ctx.facts
    for fn, rm, what in (('DatagramState::make_space_for', 'VecDeque::pop_front', 'send-buffer eviction'), ('DatagramState::recv', 'VecDeque::pop_front', 'delivery'), ('DatagramState::write', 'VecDeque::pop_front', 'transmission')):
        b = ctx.pfn(fn)
        ok = bool(b.calls_to(rm)) and not b.calls_to('VecDeque::pop_back')
        ctx.check(ok, 'c', 'oldest_first_' + fn.split('::')[-1], b, b.where(), rm, '%s no longer takes the oldest datagram (pop_front)' % what)
    rc = ctx.pfn('DatagramState::received')
    ok = bool(rc.calls_to('DatagramState::recv')) and bool(rc.calls_to('VecDeque::push_back')) and not rc.calls_to('VecDeque::pop_back') and not rc.calls_to('VecDeque::push_front')
    ctx.check(ok, 'c', 'receive_overflow_drops_oldest', rc, rc.where(), 'evict with recv() (pop_front), append with push_back', 'receive-buffer overflow no longer drops the oldest datagram first')
    sd = ctx.pfn('Datagrams::send')
    ctx.check(bool(sd.calls_to('VecDeque::push_back')) and not sd.calls_to('VecDeque::push_front'), 'c', 'send_appends_at_back', sd, sd.where(), 'push_back', 'send() no longer appends at the back of the queue')
    wr = ctx.pfn('DatagramState::write')
    ok = bool(wr.calls_to('VecDeque::push_front')) and not wr.calls_to('VecDeque::push_back')
    ctx.check(ok, 'c', 'unsent_datagram_returns_to_front', wr, wr.where(), 'push_front(datagram) when it does not fit', 'a datagram that did not fit is not put back at the front: the queue is no longer in age order and oldest-first eviction breaks')


def rule_d(ctx):
    F = ctx.facts
    dl = ctx.pfn('Connection::detect_lost_packets')
    ev = [c for c in constructions(F, 'connection::Event', 'DatagramsUnblocked', crate='quinn_proto')]
    roots_ = sorted({F.root_of(c.body).short for c in ev})
    ctx.check(roots_ == ['Connection::detect_lost_packets', 'Connection::populate_packet'], 'd', 'unblocked_event_sites', 'Event::DatagramsUnblocked', '', str(roots_), 'DatagramsUnblocked sites changed: %s' % roots_)
    for c in ev:
        b = F.root_of(c.body)
        brs = [br for br in branches(F, b) if D.has_field(br.desc, 'send_blocked') and b.dominates(br.bb, c.bb)]
        ctx.check(bool(brs), 'd', 'unblocked_only_when_blocked', b, c.where(), 'guarded by send_blocked', 'DatagramsUnblocked emitted although the sender was not blocked')
        cl = [w for w in field_writes(F, DS, 'send_blocked', crate='quinn_proto') if F.root_of(w.body).id == b.id and w.kind == 'assign']
        ctx.check(bool(cl), 'd', 'unblocked_clears_flag', b, c.where(), 'send_blocked = false', 'send_blocked is not cleared when unblocking')


def rule_e(ctx):
    F = ctx.facts
    who_may_call(ctx, 'e', 'datagram_encode_callers', ['Datagram::encode'], ['DatagramState::write'], floor=1)
    who_may_call(ctx, 'e', 'datagram_write_callers', ['DatagramState::write'], ['Connection::populate_packet'], floor=1)
    wr = ctx.pfn('DatagramState::write')
    enc = [c.bb for c in wr.calls_to('Datagram::encode')]
    guard_protects(ctx, 'e', 'datagram_written_only_if_it_fits', wr, lambda o, a, b: o == 'Lt' and D.has_param(a, name='max_size') and D.has_call(b, 'Datagram::size'), enc, what='buf.len() + size > max_size')
    # Retransmits has no datagram field; packets carrying datagrams set non_retransmits
    rt = F.adt('spaces::Retransmits')
    names = [f[0] for f in rt['variants'][0]['fields']]
    ctx.check(not any('datagram' in n for n in names), 'e', 'datagrams_not_retransmittable', 'Retransmits', '', 'no datagram field among %d fields' % len(names), 'Retransmits gained a datagram field: datagrams must never be retransmitted')
    pp = ctx.pfn('Connection::populate_packet')
    for c in pp.calls_to('DatagramState::write'):
        nr = [w for w in field_writes(F, 'SentFrames', 'non_retransmits', crate='quinn_proto') if F.root_of(w.body).id == pp.id and w.kind == 'assign' and pp.dominates(c.bb, w.bb)]
        ctx.check(bool(nr), 'e', 'datagram_packets_marked_non_retransmit', pp, c.where(), 'sent.non_retransmits = true', 'packets carrying datagrams are not marked non_retransmits')
    rc = ctx.pfn('DatagramState::received')
    for c in rc.calls_to('VecDeque::push_back'):
        a = arg_desc(F, c, 1)
        ctx.check(a[0] == 'param' and a[2] == 'datagram', 'e', 'received_datagram_pushed_whole', rc, c.where(), D.render(a), 'the received datagram is altered before buffering: ' + D.render(a)[:100])
    who_may_call(ctx, 'e', 'datagram_received_callers', ['DatagramState::received'], ['Connection::process_payload'], floor=1)


def rule_f(ctx):
    F = ctx.facts
    for fn, fld, op, what in (('DatagramState::received', 'recv_buffered', 'Add', 'push'), ('DatagramState::recv', 'recv_buffered', 'Sub', 'pop'),
                              ('Datagrams::send', 'outgoing_total', 'Add', 'push'), ('DatagramState::make_space_for', 'outgoing_total', 'Sub', 'evict'),
                              ('DatagramState::write', 'outgoing_total', 'Sub', 'transmit')):
        b = ctx.pfn(fn)
        st = [(w, v) for w, v in store_values(ctx, DS, fld, in_fn=b)]
        ok = bool(st) and all(v[0] == 'bin' and v[1] == op and D.has_field(v, fld) and (D.has_call(v, 'Bytes::len')) for w, v in st)
        ctx.check(ok, 'f', 'byte_accounting_%s_%s' % (fn.split('::')[-1], fld), b, st[0][0].where() if st else b.where(), '%s %s= data.len()' % (fld, '+' if op == 'Add' else '-'),
                  '%s no longer adjusts %s by exactly the datagram length' % (fn, fld))
    # after an MTU fallback the purge is unconditional: no `send_blocked` test may decide whether drop_oversized runs
    for b in F.code_bodies('quinn_proto'):
        for c in b.calls_to('DatagramState::drop_oversized'):
            gate = [br for br in branches(F, b) if D.has_field(br.desc, 'send_blocked') and b.dominates(br.bb, c.bb) and any(c.bb not in b.reachable_from(t, avoid=[br.bb]) for v, t in br.edges)]
            ctx.check(not gate, 'f', 'oversized_purge_not_conditional_on_blocked_sender', F.root_of(b), c.where(), 'drop_oversized() evaluated before / independently of send_blocked',
                      'queued oversized datagrams are purged only when a sender happens to be blocked (short-circuit on send_blocked): they stay at the head of the queue forever')
    ctx.floor('f', 'drop_oversized_call_sites', sum(len(b.calls_to('DatagramState::drop_oversized')) for b in F.code_bodies('quinn_proto')), 1)
    do = ctx.pfn('DatagramState::drop_oversized')
    st = [w for w in field_writes(F, DS, 'outgoing_total', crate='quinn_proto') if F.root_of(w.body).id == do.id]
    ctx.check(bool(st), 'f', 'byte_accounting_drop_oversized', do, do.where(), 'outgoing_total -= len in retain closure', 'drop_oversized no longer releases the dropped bytes')
    who_may_write(ctx, 'f', 'outgoing_total_writers', DS, 'outgoing_total', ['Datagrams::send', 'DatagramState::make_space_for', 'DatagramState::drop_oversized', 'DatagramState::write'], floor=4)
    who_may_write(ctx, 'f', 'recv_buffered_writers', DS, 'recv_buffered', ['DatagramState::received', 'DatagramState::recv'], floor=2)


def run(ctx):
    rule_a(ctx)
    rule_b(ctx)
    rule_c(ctx)
    rule_d(ctx)
    rule_e(ctx)
    rule_f(ctx)
