"""C16 — unreliable datagrams (structural part)."""
from engine.rulelib import *
from engine import desc as D

EXPLANATION = ("Static rules over quinn-proto MIR: (a) Datagrams::send admission guards: Disabled / UnsupportedByPeer / TooLarge iff len > min(max_size, send_buffer_size) "
               "/ Blocked iff no buffer space (sets send_blocked); the queue and outgoing_total change only on the accepting edge; has_send_buffer_space is "
               "checked_add(total, len) <= size; send_buffer_space is size (-) outgoing_total; (b) max_size expression tied to the current MTU, the 1-RTT overhead computed "
               "from the *remote* CID length, and the peer limit; (c) queue direction: oldest-first eviction and delivery (pop_front), append with push_back, a datagram "
               "that does not fit goes back to the front; (d) black-hole and unblock events; (e) datagrams enter packets only whole through DatagramState::write under "
               "its size guard, are never recorded for retransmission, and received frames are pushed whole; (f) byte accounting of recv_buffered / outgoing_total at "
               "every queue mutation; (g) async layer: Event::DatagramsUnblocked (one per blocked -> unblocked transition) releases every parked send_datagram_wait "
               "future (notify_waiters on datagrams_unblocked on every path of its arm); send_datagram_wait sends with drop = false, send_datagram with drop = true; "
               "(h) every reduction of the MTU under the queue (black-hole fallback, PathData::reset in path_changed, replacement of the live path in migrate) is followed on "
               "every path by a purge whose limit is the Datagrams::max_size() computed afterwards, and the purge keeps exactly len <= limit. "
               "Byte identity end-to-end is NOT decided.")
RULE = "rule instances = (rule, site) pairs over MIR branches / stores / call sites; non-trivial = bound to a real site"
DS = 'datagrams::DatagramState'


# --------------------------------------------------------------------------
# exact-value helpers
# --------------------------------------------------------------------------

def _is_bool(v, val):
    """descriptor is the literal `true` / `false`"""
    return v[0] == 'const' and v[1] == 'int' and str(v[2]) == ('1' if val else '0')


def _is_call(t, name):
    """the descriptor IS a call of `name` (not merely contains one)"""
    return t[0] == 'call' and D.has_call(t[:3] + ((),) + t[4:], name)


def _no_arith(t):
    """no arithmetic node anywhere inside the descriptor"""
    return not any((x[0] == 'bin' and x[1] in D.ARITH) or (x[0] == 'call' and x[1].rsplit('::', 1)[-1] in D._ARITH_CALLS) for x in walk(t))


_ADDC = ('saturating_add', 'wrapping_add')
_SUBC = ('saturating_sub', 'wrapping_sub')


def _lin(d, sign=1, out=None):
    """additive normal form: (terms added, terms subtracted); `a.saturating_sub(b)` counts as `a - b`"""
    if out is None:
        out = ([], [])
    if d[0] == 'bin' and d[1] in ('Add', 'Sub'):
        _lin(d[2], sign, out)
        _lin(d[3], sign if d[1] == 'Add' else -sign, out)
    elif d[0] == 'call' and len(d[3]) == 2 and d[1].rsplit('::', 1)[-1] in _ADDC + _SUBC:
        _lin(d[3][0], sign, out)
        _lin(d[3][1], sign if d[1].rsplit('::', 1)[-1] in _ADDC else -sign, out)
    else:
        out[0 if sign > 0 else 1].append(d)
    return out


def _match_terms(terms, preds):
    """the term list matches the predicates one-to-one (any order)"""
    if len(terms) != len(preds):
        return False
    if not preds:
        return True
    for i, t in enumerate(terms):
        if preds[0](t) and _match_terms(terms[:i] + terms[i + 1:], preds[1:]):
            return True
    return False


def _is_size_bound(t):
    return t[0] == 'const' and (t[3] == 'SIZE_BOUND' or t[3].endswith('::SIZE_BOUND'))


def _is_flag(t, name):
    return t[0] == 'field' and t[2] == name


def _conjuncts(desc):
    """(conjuncts of the negation-peeled bool descriptor over non-short-circuit `&`, negated?)"""
    inner, neg = peel_not(desc)
    conj = [inner]
    while any(x[0] == 'bin' and x[1] == 'BitAnd' for x in conj):
        conj = [y for x in conj for y in ((x[2], x[3]) if x[0] == 'bin' and x[1] == 'BitAnd' else (x,))]
    return conj, neg


def _conj_guards(F, b, pred, site_bb):
    """branches on a bool satisfying `pred` (alone, negated, or as a conjunct of a non-short-circuit `&`) that dominate
    site_bb and from whose `bool == false` edge the site is unreachable: list of (Branch, target_when_false)"""
    out = []
    for br in branches(F, b):
        conj, neg = _conjuncts(br.desc)
        if not any(pred(x) for x in conj):
            continue
        t_false = br.target(1 if neg else 0)     # the edge on which the bool is not known to be set
        if b.dominates(br.bb, site_bb) and site_bb not in b.reachable_from(t_false, avoid=[br.bb]):
            out.append((br, t_false))
    return out


def _flag_guards(F, b, name, site_bb):
    """_conj_guards for the bool field `name`"""
    return _conj_guards(F, b, lambda x: _is_flag(x, name), site_bb)


def rule_a(ctx):
    F = ctx.facts
    sd = ctx.pfn('Datagrams::send')
    push = [c.bb for c in sd.calls_to('VecDeque::push_back')]
    tot = sorted({w.bb for w, v in store_values(ctx, DS, 'outgoing_total', in_fn=sd)})   # direct stores and stores through a local `&mut` borrow
    prot = push + tot
    ctx.floor('a', 'accepting_sites', len(prot), 2)
    for var in ('Disabled', 'UnsupportedByPeer', 'TooLarge', 'Blocked'):
        cons = [c for c in constructions(F, 'SendDatagramError', var, crate='quinn_proto') if F.root_of(c.body).id == sd.id]
        ctx.check(bool(cons), 'a', 'send_error_' + var.lower(), sd, sd.where(), 'Err(%s) exit present' % var, 'Datagrams::send lost its %s exit' % var)
    guard_error(ctx, 'a', 'too_large_relation', sd, lambda o, a, b: o == 'Lt' and a[0] == 'call' and a[1].endswith('::min') and D.has_call(a, 'Datagrams::max_size') and D.has_field(a, 'datagram_send_buffer_size') and D.has_call(b, 'Bytes::len'),
                variant=('SendDatagramError', 'TooLarge'), protect=prot, what='len > min(max_size, send_buffer_size)')
    # once the queue / outgoing_total changed, no error exit may follow (state changes only on the accepting edge)
    rets = set(sd.return_blocks())
    errs = set()
    for var in ('Disabled', 'UnsupportedByPeer', 'TooLarge', 'Blocked'):
        errs |= effect_blocks(ctx, sd, variant=('SendDatagramError', var))
    late = sorted(p for p in prot if sd.reachable_from(p) & errs)
    ctx.check(bool(errs) and not late, 'a', 'state_changes_only_on_accepting_edge', sd, sd.where(), 'no push_back / outgoing_total store can be followed by an Err(..) exit',
              'blocks %s change the queue / outgoing_total and can still reach an Err(..) exit: a rejected datagram stays queued / charged' % late)
    # blocked: !has_send_buffer_space.  Exactly the branches on has_send_buffer_space are looked at, each with its own call
    # site: one of them is the Blocked decision (all five conditions below); any other one must be the header of the
    # send-buffer eviction loop (the body of DatagramState::make_space_for written out in the caller): its no-space edge
    # pops the front of `outgoing` before any return / push, and can reach neither Err(Blocked) nor a send_blocked store
    hs = sd.calls_to('DatagramState::has_send_buffer_space')
    sbv = store_values(ctx, DS, 'send_blocked', in_fn=sd)
    eff = effect_blocks(ctx, sd, variant=('SendDatagramError', 'Blocked'))
    pops = {c.bb for c in sd.calls_to('VecDeque::pop_front') if c.args and _is_flag(arg_desc(F, c, 0), 'outgoing')}
    set_true = {w.bb for w, v in sbv if _is_bool(v, True)}
    decisions, whys, seen = [], [], set()
    for c in hs:
        for br in branches(F, sd):
            inner, neg = peel_not(br.desc)
            if inner[0] == 'call' and contains_site(inner, c) and br.bb not in seen:
                seen.add(br.bb)
                t_no = br.target(1 if neg else 0)
                region = sd.reachable_from(t_no)
                conds = (
                    (bool(eff) and path_avoiding(sd, [t_no], rets | set(prot), eff) is None, 'the no-space edge reaches a return / the queue without Err(Blocked)'),
                    (bool(sbv) and all(_is_bool(v, True) for w, v in sbv), 'send_blocked is not stored as `true` (%s)' % [D.render(v)[:40] for w, v in sbv]),
                    (all(w.bb in region for w, v in sbv), 'send_blocked is stored outside the no-space edge'),
                    (bool(set_true) and path_avoiding(sd, [t_no], rets, set_true) is None, 'a path over the no-space edge returns without send_blocked = true'),
                    (not any(sd.reachable_from(p) & eff for p in prot), 'the queue / outgoing_total is changed before the Blocked decision: a rejected datagram stays charged'),
                )
                if all(x for x, _ in conds):
                    decisions.append(br)
                    continue
                evicts = bool(pops) and path_avoiding(sd, [t_no], rets | set(push), pops) is None and not (region & (eff | {w.bb for w, v in sbv}))
                if not evicts:
                    whys.append('; '.join(t for x, t in conds if not x))
    ok = bool(decisions) and not whys
    why = ' | '.join(whys) or ('no branch on has_send_buffer_space' if not seen else 'every branch on has_send_buffer_space only evicts, none decides Blocked')
    ctx.check(ok, 'a', 'blocked_iff_no_space', sd, sd.where(), '!has_send_buffer_space -> send_blocked = true; Err(Blocked); queue and outgoing_total untouched',
              'the Blocked outcome no longer follows has_send_buffer_space / does not record send_blocked: ' + why)
    hb = ctx.pfn('DatagramState::has_send_buffer_space')
    rd = [y for _, x in ret_descs(F, hb) for y in flat(x)]
    ok = any(y[0] == 'bin' and y[1] == 'Le' and D.has_call(y[2], 'usize::checked_add') and D.has_param(y[3], name='send_buffer_size') for y in rd) and any(y[0] == 'const' and str(y[2]) == '0' for y in rd)
    ctx.check(ok, 'a', 'buffer_space_relation', hb, hb.where(), 'checked_add(outgoing_total, len) <= send_buffer_size (overflow -> false)', 'has_send_buffer_space relation changed: %s' % [D.render(y)[:80] for y in rd])
    sp = ctx.pfn('Datagrams::send_buffer_space')
    rd = [y for _, x in ret_descs(F, sp) for y in flat(x)]
    ok = all(y[0] == 'call' and y[1] == 'usize::saturating_sub' and D.has_field(y[3][0], 'datagram_send_buffer_size') and D.has_field(y[3][1], 'outgoing_total') for y in rd)
    ctx.check(ok and rd, 'a', 'send_buffer_space_expression', sp, sp.where(), 'send_buffer_size.saturating_sub(outgoing_total)', 'send_buffer_space expression changed')


def rule_b(ctx):
    F = ctx.facts
    ms = ctx.pfn('Datagrams::max_size')
    rd = [y for _, x in ret_descs(F, ms) for y in flat(x)]
    ok = False
    for y in rd:
        if y[0] == 'agg' and y[2].endswith('Some'):
            v = y[3][0]
            ok = False
            if v[0] == 'call' and v[1].endswith('::min') and len(v[3]) == 2:
                peer = lambda t: D.has_field(t, 'max_datagram_frame_size') and _no_arith(t)
                mtu = lambda t: _is_call(t, 'PathData::current_mtu') and _no_arith(t)
                ovh = lambda t: _is_call(t, 'Connection::predict_1rtt_overhead') and _no_arith(t)
                for lim, own in (v[3], v[3][::-1]):
                    lp, lm = _lin(lim)
                    op, om = _lin(own)
                    # peer side: limit (-) SIZE_BOUND exactly ; MTU side: mtu - overhead - SIZE_BOUND exactly
                    if _match_terms(lp, [peer]) and _match_terms(lm, [_is_size_bound]) and _match_terms(op, [mtu]) and _match_terms(om, [ovh, _is_size_bound]):
                        # the peer limit may be arbitrarily small: its subtraction must not be able to underflow
                        ok = lim[0] == 'call' and lim[1].rsplit('::', 1)[-1] == 'saturating_sub'
    ctx.check(ok, 'b', 'max_size_expression', ms, ms.where(), 'min(peer_limit (-) SIZE_BOUND, current_mtu - overhead - SIZE_BOUND)', 'Datagrams::max_size expression changed')
    po = ctx.pfn('Connection::predict_1rtt_overhead')
    rd = [y for _, x in ret_descs(F, po) for y in flat(x)]
    ok = all(D.has_field(y, 'rem_cids') and D.has_call(y, 'CidQueue::active') and D.has_call(y, 'Connection::tag_len_1rtt') and not D.has_field(y, 'local_cid_state') for y in rd) and bool(rd)
    ctx.check(ok, 'b', 'overhead_uses_remote_cid_length', po, po.where(), '1 + rem_cids.active().len() + pn_len + tag_len', 'the 1-RTT overhead is not computed from the remote (destination) CID length: max_size would be wrong when CID lengths differ')


def rule_c(ctx):
    F = ctx.facts
    for fn, rm, what in (('DatagramState::make_space_for', 'VecDeque::pop_front', 'send-buffer eviction'), ('DatagramState::recv', 'VecDeque::pop_front', 'delivery'), ('DatagramState::write', 'VecDeque::pop_front', 'transmission')):
        b = ctx.pfn(fn)
        ok = bool(b.calls_to(rm)) and not b.calls_to('VecDeque::pop_back')
        ctx.check(ok, 'c', 'oldest_first_' + fn.split('::')[-1], b, b.where(), rm, '%s no longer takes the oldest datagram (pop_front)' % what)
    rc = ctx.pfn('DatagramState::received')
    # eviction = DatagramState::recv() (pop_front there: oldest_first_recv) or its body written out: pop_front of self.incoming
    # (the release of the popped datagram's bytes is rule f)
    evict = rc.calls_to('DatagramState::recv') or _direct_pops(F, rc, 'incoming')
    ok = bool(evict) and bool(rc.calls_to('VecDeque::push_back')) and not rc.calls_to('VecDeque::pop_back') and not rc.calls_to('VecDeque::push_front')
    ctx.check(ok, 'c', 'receive_overflow_drops_oldest', rc, rc.where(), 'evict with recv() / incoming.pop_front(), append with push_back', 'receive-buffer overflow no longer drops the oldest datagram first')
    sd = ctx.pfn('Datagrams::send')
    # (an eviction loop written out in send() takes from the front as make_space_for does)
    ctx.check(bool(sd.calls_to('VecDeque::push_back')) and not sd.calls_to('VecDeque::push_front') and not sd.calls_to('VecDeque::pop_back'), 'c', 'send_appends_at_back', sd, sd.where(), 'push_back',
              'send() no longer appends at the back of the queue / evicts from the back')
    wr = ctx.pfn('DatagramState::write')
    ok = bool(wr.calls_to('VecDeque::push_front')) and not wr.calls_to('VecDeque::push_back')
    ctx.check(ok, 'c', 'unsent_datagram_returns_to_front', wr, wr.where(), 'push_front(datagram) when it does not fit', 'a datagram that did not fit is not put back at the front: the queue is no longer in age order and oldest-first eviction breaks')


def rule_d(ctx):
    F = ctx.facts
    pp = ctx.pfn('Connection::populate_packet')
    ev = [c for c in constructions(F, 'connection::Event', 'DatagramsUnblocked', crate='quinn_proto')]
    roots_ = sorted({F.root_of(c.body).short for c in ev})
    # room in the send buffer appears in two ways only: a datagram was transmitted (populate_packet) or queued datagrams were
    # purged (every function calling DatagramState::drop_oversized: the black-hole fallback and, since the MTU-reset repair,
    # the purge after path_changed / migrate).  The event sites are exactly those functions: each of them reports, nobody else does.
    purges = [c for c in F.callers_of('DatagramState::drop_oversized', crate='quinn_proto') if not is_noise(c)]
    want = sorted({pp.short} | {F.root_of(c.body).short for c in purges})
    ctx.floor('d', 'purge_sites_reporting_unblock', len(purges), 1)
    ctx.check(roots_ == want, 'd', 'unblocked_event_sites', 'Event::DatagramsUnblocked', '', str(roots_),
              'DatagramsUnblocked sites changed: %s (expected: the transmit path and every function that purges the queue: %s)' % (roots_, want))
    for c in ev:
        b = F.root_of(c.body)
        if b.id != pp.id:
            # outside the transmit path the event needs a purge that actually released space: reachable only over the
            # `true` edge of a dominating branch on the result of DatagramState::drop_oversized
            g = _conj_guards(F, b, lambda x: _is_call(x, 'DatagramState::drop_oversized'), c.bb) if c.body.id == b.id else []
            ctx.check(bool(g), 'd', 'unblocked_after_purge_only_if_dropped', b, c.where(), 'event only reachable over the drop_oversized(..) == true edge of a dominating branch',
                      'DatagramsUnblocked emitted outside the transmit path without a purge that dropped something (no dominating branch on the result of drop_oversized whose false edge excludes the event)')
        # the branch must be ON send_blocked and the event reachable only over its `send_blocked == true` edge
        guards = _flag_guards(F, b, 'send_blocked', c.bb) if c.body.id == b.id else []
        ctx.check(bool(guards), 'd', 'unblocked_only_when_blocked', b, c.where(), 'event only reachable over the send_blocked == true edge of a dominating branch',
                  'DatagramsUnblocked emitted although the sender was not blocked (no dominating branch on send_blocked whose false edge excludes the event)')
        # the flag is cleared (value false) together with the event: inside the guarded region, either before the
        # event on every path to it or after it on every path to a return; these functions never set the flag
        sv = store_values(ctx, DS, 'send_blocked', in_fn=b)
        region = [w.bb for w, v in sv if _is_bool(v, False) and w.body.id == b.id
                  and any(b.dominates(br.bb, w.bb) and w.bb not in b.reachable_from(t, avoid=[br.bb]) for br, t in guards)]
        before = any(b.dominates(x, c.bb) for x in region)
        after = bool(region) and path_avoiding(b, [c.bb], b.return_blocks(), region) is None
        only_false = all(_is_bool(v, False) for w, v in sv)
        ctx.check((before or after) and only_false, 'd', 'unblocked_clears_flag', b, c.where(), 'send_blocked = false on the event path',
                  'send_blocked is not cleared (stored false) on the path that emits DatagramsUnblocked; stores in %s: %s' % (b.short, [(w.where(), D.render(v)[:40]) for w, v in sv]))

    # conversely every purge reports: from the purge call, over the `dropped` and `send_blocked` edges, every path to a return emits the event
    for p in purges:
        b = F.root_of(p.body)
        E = {c.bb for c in ev if c.body.id == b.id} if p.body.id == b.id else set()
        cut = set()
        for br in branches(F, b):
            conj, neg = _conjuncts(br.desc)
            if any(is_site(x, p) or _is_flag(x, 'send_blocked') for x in conj):
                cut.add((br.bb, br.target(1 if neg else 0)))
        silent = sorted(b.reachable_from(p.bb, avoid=E, avoid_edges=cut) & set(b.return_blocks())) if E else ['no event site']
        ctx.check(not silent, 'd', 'purge_that_unblocks_reports_it', b, p.where(), 'drop_oversized(..) && send_blocked -> DatagramsUnblocked on every path to a return',
                  'a purge that dropped datagrams while a sender was blocked can return without DatagramsUnblocked (%s): the blocked sender is never woken' % silent)

def _mutated_locals(b, ty):
    """source lines where a local of type `ty` (or a part of it) is mutably borrowed, raw-mut addressed, or partially written"""
    same = {l for l, (t, n) in enumerate(b.locals) if t == ty}
    live = b.live_blocks()
    out = []
    for i, j, s in b.stmts():
        if i not in live:
            continue
        if s[0] == '=':
            pl, rv = s[1], s[2]
            if rv[0] == 'ref' and rv[1] and rv[2][0] in same and '*' not in rv[2][1]:
                out.append(s[3])
            elif rv[0] == 'ptr' and 'Mut' in str(rv[1]) and rv[2][0] in same and '*' not in rv[2][1]:
                out.append(s[3])
            if pl[0] in same and pl[1] and '*' not in pl[1]:
                out.append(s[3])
        elif s[0] == 'sd' and s[1][0] in same:
            out.append(s[-1])
    for c in b.calls():
        if c.bb in live and c.dst[0] in same and c.dst[1] and '*' not in c.dst[1]:
            out.append(c.line)
    return sorted(set(out))


def rule_e(ctx):
    F = ctx.facts
    who_may_call(ctx, 'e', 'datagram_encode_callers', ['Datagram::encode'], ['DatagramState::write'], floor=1)
    who_may_call(ctx, 'e', 'datagram_write_callers', ['DatagramState::write'], ['Connection::populate_packet'], floor=1)
    wr = ctx.pfn('DatagramState::write')
    encs = wr.calls_to('Datagram::encode')
    enc = [c.bb for c in encs]
    enc_args = [tuple(arg_desc(F, c, i) for i in range(3)) for c in encs]

    def fits(o, a, b):
        # violating relation max_size < buf.len() + datagram.size(..), in any additive arrangement; the size is that of
        # the datagram being encoded (same `length` flag) and the length that of the buffer it is encoded into
        if o != 'Lt':
            return False
        (ap, am), (bp, bm) = _lin(a), _lin(b)
        plus, minus = bp + am, bm + ap
        for dg, flag, buf in enc_args:
            size = lambda t: _is_call(t, 'Datagram::size') and len(t[3]) == 2 and t[3][0] == dg and t[3][1] == flag
            used = lambda t: _is_call(t, 'Vec::len') and len(t[3]) == 1 and t[3][0] == buf
            limit = lambda t: t[0] == 'param' and t[2] == 'max_size'
            if _match_terms(plus, [size, used]) and _match_terms(minus, [limit]):
                return True
        return False
    guard_protects(ctx, 'e', 'datagram_written_only_if_it_fits', wr, fits, enc, what='buf.len() + size > max_size')
    # Retransmits has no datagram field; packets carrying datagrams set non_retransmits
    rt = F.adt('spaces::Retransmits')
    names = [f[0] for f in rt['variants'][0]['fields']]
    ctx.check(not any('datagram' in n for n in names), 'e', 'datagrams_not_retransmittable', 'Retransmits', '', 'no datagram field among %d fields' % len(names), 'Retransmits gained a datagram field: datagrams must never be retransmitted')
    pp = ctx.pfn('Connection::populate_packet')
    nrs = store_values(ctx, 'SentFrames', 'non_retransmits', in_fn=pp)
    never_cleared = all(_is_bool(v, True) for w, v in nrs)      # populate_packet only ever raises the flag
    for c in pp.calls_to('DatagramState::write'):
        marks = {w.bb for w, v in nrs if _is_bool(v, True) and w.body.id == pp.id and pp.dominates(c.bb, w.bb)}
        ok = False
        for br in branches(F, pp):
            inner, neg = peel_not(br.desc)
            if is_site(inner, c) and marks:
                t_wrote = br.target(0 if neg else 1)
                # from the `written` edge the flag is stored true before the next write attempt / the return
                ok = path_avoiding(pp, [t_wrote], set(pp.return_blocks()) | {c.bb}, marks) is None
        ctx.check(ok and never_cleared, 'e', 'datagram_packets_marked_non_retransmit', pp, c.where(), 'sent.non_retransmits = true on the written edge',
                  'packets carrying datagrams are not marked non_retransmits = true (stores: %s)' % [(w.where(), D.render(v)[:30]) for w, v in nrs])
    rc = ctx.pfn('DatagramState::received')
    for c in rc.calls_to('VecDeque::push_back'):
        a = arg_desc(F, c, 1)
        whole = a[0] == 'param' and a[2] == 'datagram'
        # the describer resolves a whole-local move to the parameter even when a field of it was mutated in place
        # (`&mut datagram.data` handed to a callee, partial assignment): no local of the parameter's type may be
        # mutably borrowed or partially written in this body
        touched = _mutated_locals(rc, rc.locals[a[1]][0]) if whole else []
        ctx.check(whole and not touched, 'e', 'received_datagram_pushed_whole', rc, c.where(), D.render(a),
                  'the received datagram is altered before buffering: ' + (D.render(a)[:100] if not whole else 'in-place mutation at line(s) %s' % touched))
    who_may_call(ctx, 'e', 'datagram_received_callers', ['DatagramState::received'], ['Connection::process_payload'], floor=1)


def _adjusts_by_len(v, op, is_counter):
    """v IS `counter <op> Bytes::len(<x>.data)` (nothing else added or subtracted)"""
    if not (v[0] == 'bin' and v[1] == op):
        return False
    is_len = lambda t: _is_call(t, 'Bytes::len') and len(t[3]) == 1 and _no_arith(t)
    if op == 'Sub':
        return is_counter(v[2]) and is_len(v[3])
    return (is_counter(v[2]) and is_len(v[3])) or (is_counter(v[3]) and is_len(v[2]))


_QUEUE_OF = {'recv_buffered': 'incoming', 'outgoing_total': 'outgoing'}      # byte counter -> the queue it accounts for


def _direct_pops(F, b, queue):
    """live calls `VecDeque::pop_front(<..>.queue)` in the body `b`"""
    return [c for c in b.calls_to('VecDeque::pop_front') if c.args and _is_flag(arg_desc(F, c, 0), queue)]


def _popped_front_site(v, fld):
    """v IS `counter - Bytes::len((VecDeque::pop_front(S.queue) as Some).0.data)` with counter = S.fld of the same state S and
    queue the queue `fld` accounts for: returns the block of the pop_front call, else None"""
    if not (v[0] == 'bin' and v[1] == 'Sub' and _is_flag(v[2], fld) and _is_call(v[3], 'Bytes::len') and len(v[3][3]) == 1):
        return None
    e = v[3][3][0]
    if not (e[0] == 'field' and e[2] == 'data' and e[1][0] == 'field' and e[1][2] == '0' and e[1][1][0] == 'variant' and e[1][1][2] == 'Some'):
        return None
    p = e[1][1][1]
    if _is_call(p, 'VecDeque::pop_front') and len(p[3]) == 1 and _is_flag(p[3][0], _QUEUE_OF[fld]) and p[3][0][1] == v[2][1]:
        return p[4]
    return None


def _upvar_is(t, field):
    """closure capture of the place `<..>.field` (edition-2021 precise capture names the captured path)"""
    return t[0] == 'upvar' and (t[1] == field or t[1].endswith('.' + field))


def rule_f(ctx):
    F = ctx.facts
    for fn, fld, op, what in (('DatagramState::received', 'recv_buffered', 'Add', 'push'), ('DatagramState::recv', 'recv_buffered', 'Sub', 'pop'),
                              ('Datagrams::send', 'outgoing_total', 'Add', 'push'), ('DatagramState::make_space_for', 'outgoing_total', 'Sub', 'evict'),
                              ('DatagramState::write', 'outgoing_total', 'Sub', 'transmit')):
        b = ctx.pfn(fn)
        st = [(w, v) for w, v in store_values(ctx, DS, fld, in_fn=b)]
        own = [(w, v) for w, v in st if _adjusts_by_len(v, op, lambda t: _is_flag(t, fld))]
        # a function that charges a pushed datagram may also contain the eviction written out (the body of DatagramState::recv /
        # make_space_for in the caller): `counter -= <queue.pop_front() as Some>.0.data.len()` on the queue this counter belongs to
        rel = [(w, v) for w, v in st if op == 'Add' and _popped_front_site(v, fld) is not None]
        ok = bool(own) and len(own) + len(rel) == len(st)
        why = '%s no longer adjusts %s by exactly the datagram length' % (fn, fld)
        if ok and op == 'Add':
            # ... and then every datagram popped directly is released: from the Some edge of the pop every path to a return / the next pop stores the release
            for c in _direct_pops(F, b, _QUEUE_OF[fld]):
                rb = {w.bb for w, v in rel if _popped_front_site(v, fld) == c.bb and w.body.id == b.id}
                brs = [br for br in branches(F, b) if br.desc[0] == 'discr' and is_site(br.desc[1], c)] if c.body.id == b.id else []
                starts = [br.target(1) for br in brs] or list(c.body.succ[c.bb])
                if not rb or c.body.id != b.id or path_avoiding(b, starts, set(b.return_blocks()) | {c.bb}, rb) is not None:
                    ok = False
                    why = '%s pops a datagram off %s (%s) without releasing its bytes from %s' % (fn, _QUEUE_OF[fld], c.where(), fld)
        ctx.check(ok, 'f', 'byte_accounting_%s_%s' % (fn.split('::')[-1], fld), b, st[0][0].where() if st else b.where(), '%s %s= data.len()' % (fld, '+' if op == 'Add' else '-'), why)
    # after an MTU fallback the purge is unconditional: no `send_blocked` test may decide whether drop_oversized runs
    for b in F.code_bodies('quinn_proto'):
        for c in b.calls_to('DatagramState::drop_oversized'):
            gate = [br for br in branches(F, b) if D.has_field(br.desc, 'send_blocked') and b.dominates(br.bb, c.bb) and any(c.bb not in b.reachable_from(t, avoid=[br.bb]) for v, t in br.edges)]
            ctx.check(not gate, 'f', 'oversized_purge_not_conditional_on_blocked_sender', F.root_of(b), c.where(), 'drop_oversized() evaluated before / independently of send_blocked',
                      'queued oversized datagrams are purged only when a sender happens to be blocked (short-circuit on send_blocked): they stay at the head of the queue forever')
    ctx.floor('f', 'drop_oversized_call_sites', sum(len(b.calls_to('DatagramState::drop_oversized')) for b in F.code_bodies('quinn_proto')), 1)
    do = ctx.pfn('DatagramState::drop_oversized')
    # direct stores (and stores through a local borrow) anywhere in the family, plus stores through the closure's captured `&mut self.outgoing_total`
    vals = [(w.where(), _adjusts_by_len(v, 'Sub', lambda t: _is_flag(t, 'outgoing_total'))) for w, v in store_values(ctx, DS, 'outgoing_total', in_fn=do)]
    for cb in F.family(do):
        if cb.kind != 'closure':
            continue
        d = describer(F, cb)
        live = cb.live_blocks()
        for i, j, pl, rv, line in cb.assigns():
            if i not in live or not pl[1] or pl[1][-1] != '*':
                continue
            tgt = d.place([pl[0], pl[1][:-1]], i, j)
            if tgt[0] == 'upvar' and _upvar_is(tgt, 'outgoing_total'):
                v = d.rvalue(rv, i, j, 0)
                # released amount = length of the element the retain closure is looking at (a closure parameter)
                elem = v[0] == 'bin' and v[3][0] == 'call' and v[3][3] and v[3][3][0][0] == 'field' and v[3][3][0][1][0] == 'param' and 2 <= v[3][3][0][1][1] <= cb.argc
                vals.append((cb.where(line), elem and _adjusts_by_len(v, 'Sub', lambda t: t == tgt)))
    captured = [w for w in field_writes(F, DS, 'outgoing_total', crate='quinn_proto') if F.root_of(w.body).id == do.id]
    ctx.check(bool(captured) and bool(vals) and all(x for _, x in vals), 'f', 'byte_accounting_drop_oversized', do, do.where(), 'outgoing_total -= datagram.data.len() in retain closure (%d store(s))' % len(vals),
              'drop_oversized no longer releases exactly the dropped datagram\'s bytes: %s' % [w for w, x in vals if not x])
    who_may_write(ctx, 'f', 'outgoing_total_writers', DS, 'outgoing_total', ['Datagrams::send', 'DatagramState::make_space_for', 'DatagramState::drop_oversized', 'DatagramState::write'], floor=4)
    who_may_write(ctx, 'f', 'recv_buffered_writers', DS, 'recv_buffered', ['DatagramState::received', 'DatagramState::recv'], floor=2)


def _proto_event_discr(F, name):
    """discriminant of quinn_proto::connection::Event::<name> (None when the ADT / variant is gone)"""
    ev = [a for p, a in F.adts.items() if a.get('crate') == 'quinn_proto' and p.endswith('connection::Event')]
    if len(ev) != 1:
        return None
    for i, v in enumerate(ev[0]['variants']):
        if v['name'] == name:
            return int(v.get('discr', i))
    return None


def _is_polled_event(t):
    """t IS the payload of `Some(..)` returned by quinn_proto::Connection::poll"""
    return t[0] == 'field' and t[2] == '0' and t[1][0] == 'variant' and t[1][2] == 'Some' and _is_call(t[1][1], 'quinn_proto::Connection::poll')


def rule_g(ctx):
    """async layer.  quinn-proto emits ONE DatagramsUnblocked per blocked -> unblocked transition (rule d: the event is tied to
    send_blocked and clears it), and only a sender whose retry is refused re-arms the flag.  Hence the handler of that event has
    to release EVERY parked SendDatagram: a sender left asleep is never woken again although the buffer-space query reports room."""
    F = ctx.facts
    fa = ctx.qfn('State::forward_app_events')
    val = _proto_event_discr(F, 'DatagramsUnblocked')
    nxt = [c.bb for c in fa.calls_to('quinn_proto::Connection::poll')]
    disp = [br for br in branches(F, fa) if br.desc[0] == 'discr' and _is_polled_event(br.desc[1])]
    explicit = [br for br in disp if val in [v for v, _ in br.edges]]
    ctx.check(val is not None and bool(disp), 'g', 'unblocked_event_dispatch', fa, fa.where(), 'dispatch on the discriminant of the event returned by Connection::poll (%d branch(es))' % len(disp),
              'cannot locate the dispatch on quinn_proto::Event / Event::DatagramsUnblocked in forward_app_events')
    # the wake-up that reaches all parked senders: Notify::notify_waiters on the scalar Notify `datagrams_unblocked` itself
    # (notify_one releases a single waiter; another Notify releases none of them)
    wake = sorted({c.bb for c in fa.calls_to('Notify::notify_waiters') if c.args and _is_flag(arg_desc(F, c, 0), 'datagrams_unblocked')})
    goals = set(fa.return_blocks()) | set(nxt)
    bad = []
    for br in (explicit or disp):
        t = br.target(val)
        if t is None:
            bad.append('bb%d: no edge for the event' % br.bb)
            continue
        p = path_avoiding(fa, [t], goals, wake)
        if p is not None:
            bad.append(fmt_path(fa, p))
    ctx.check(val is not None and bool(disp) and bool(wake) and not bad, 'g', 'unblocked_event_wakes_every_blocked_sender', fa, fa.where(),
              'Event::DatagramsUnblocked -> shared.datagrams_unblocked.notify_waiters() on every path to the next event / the return',
              'the single DatagramsUnblocked event of a blocked -> unblocked transition does not wake all parked send_datagram_wait futures '
              '(no Notify::notify_waiters on datagrams_unblocked on: %s): the senders left asleep are never woken again although send_buffer_space reports room' % (bad or 'any path'))
    # the two send modes: the waiting variant never evicts (drop == false, so a refused retry re-arms send_blocked), the
    # non-waiting variant always makes room (drop == true, it has no Blocked outcome to report)
    for fn, drop, what in (('<SendDatagram as Future>::poll', False, 'send_datagram_wait'), ('Connection::send_datagram', True, 'send_datagram')):
        anchor = ctx.qfn(fn)
        sites = [c for c in F.callers_of('quinn_proto::Datagrams::send', crate='quinn') if F.root_of(c.body).id == F.root_of(anchor).id]
        vals = [y for c in sites for y in (flat(arg_desc(F, c, 2)) if len(c.args) > 2 else [('missing',)])]
        ctx.check(bool(sites) and all(_is_bool(y, drop) for y in vals), 'g', 'send_mode_' + what, anchor, sites[0].where() if sites else anchor.where(),
                  'Datagrams::send(.., drop = %s)' % str(drop).lower(),
                  '%s no longer calls Datagrams::send with drop = %s (%s): %s' % (what, str(drop).lower(), [D.render(y)[:40] for y in vals],
                                                                                   'waiting senders evict queued datagrams instead of blocking on the send-buffer bound' if not drop else 'the non-waiting send can be refused as Blocked'))



# --------------------------------------------------------------------------
# h: whatever lowers the MTU under the queue purges the datagrams that no longer fit
# --------------------------------------------------------------------------

MTU = 'mtud::MtuDiscovery'
# writers of MtuDiscovery.current_mtu that are NOT treated as reductions (everything else, including any future writer, is)
_MTU_WRITERS_NOT_CLAIMED = {
    'MtuDiscovery::on_acked': 'an acknowledged probe only raises the MTU',
    'MtuDiscovery::on_peer_max_udp_payload_size_received': "clamp to the peer's transport parameter when it arrives (Connection::set_peer_params); not among the repaired sites, recorded and not claimed",
}


def _is_conn_method(F, b):
    r = F.root_of(b)
    return r.crate == 'quinn_proto' and len(r.locals) > 1 and r.argc >= 1 and r.locals[1][0].replace('&mut ', '').replace('&', '').strip().endswith('connection::Connection')


def _live_path_place(d):
    """0 when the descriptor IS `self.path` of a Connection method, n > 0 when it is a place n fields below it, else None"""
    n = 0
    while d[0] == 'field':
        if d[2] == 'path' and d[1][0] == 'param' and d[1][1] == 1:
            return n
        d = d[1]
        n += 1
    return None


def _purge_attempts(F, b):
    """blocks of `b` that start a purge with the maximum valid at that moment: a call of Datagrams::max_size whose `Some`
    payload - and nothing else - is the limit handed to DatagramState::drop_oversized on every path from the Some edge
    to a return (None: the peer accepts no datagrams, nothing can be queued).  Returns (blocks, [(call, reason)] rejected)"""
    out, rej = set(), []
    rets = b.return_blocks()
    for c in b.calls_to('DatagramState::drop_oversized'):
        a = arg_desc(F, c, 1)
        m = a[1][1] if a[0] == 'field' and a[2] == '0' and a[1][0] == 'variant' and a[1][2] == 'Some' else None
        if m is None or not _is_call(m, 'Datagrams::max_size'):
            rej.append((c, 'the limit is %s, not the payload of Datagrams::max_size()' % D.render(a)[:80]))
            continue
        brs = [br for br in branches(F, b) if br.desc == ('discr', m) and b.dominates(br.bb, c.bb)]
        if not any(path_avoiding(b, [br.target(1)], rets, [c.bb]) is None for br in brs):
            rej.append((c, 'a path over the Some(max) edge returns without the purge'))
            continue
        out.add(m[4])
    return out, rej


def _purge_blocks(F, b, depth=2):
    """purge attempts of `b` plus calls of crate-local functions every entry -> return path of which passes one"""
    out = set(_purge_attempts(F, b)[0])
    if depth > 0:
        live = b.live_blocks()
        for c in b.calls():
            if c.bb in live and c.k == 'item' and c.f in F.bodies and F.bodies[c.f].kind == 'fn' and F.bodies[c.f].crate == 'quinn_proto' and c.f != b.id:
                cb = F.bodies[c.f]
                if may_reach(F, cb, ['DatagramState::drop_oversized'], depth) and \
                        path_avoiding(cb, [0], cb.return_blocks(), _purge_blocks(F, cb, depth - 1)) is None:
                    out.add(c.bb)
    return out


def _false_means_untouched(F, cb, stores):
    """the bool function `cb` cannot return `false` after one of the `stores` (blocks): every value it returns is the
    constant `true`, a constant `false` assigned where no store can have happened, or an expression the stores are guarded by
    (they are reachable only over the edge of a dominating branch on which that same expression is true)"""
    d = describer(F, cb)
    defs = cb.defs_of(0)
    for df in defs:
        if df[0] == 'stmt':
            v = d.rvalue(df[3], df[1], df[2], 0)
        elif df[0] == 'call':
            v = d.call_desc(df[2], 0)
        else:
            return False
        for x in flat(v):
            if _is_bool(x, True):
                continue
            if _is_bool(x, False):
                if any(df[1] in cb.reachable_from(s) for s in stores):
                    return False
                continue
            inner, neg = peel_not(x)
            for s in stores:
                guarded = False
                for br in branches(F, cb):
                    bi, bn = peel_not(br.desc)
                    if bi != inner:
                        continue
                    t_false = br.target((1 if neg else 0) ^ (1 if bn else 0))       # edge on which the returned expression is false
                    if cb.dominates(br.bb, s) and s not in cb.reachable_from(t_false, avoid=[br.bb]):
                        guarded = True
                if not guarded:
                    return False
    return bool(defs)


def _reports_reduction(F, c, lowering):
    """the callee of site `c` returns bool and cannot return `false` after storing the MTU: the reduction happened iff the
    result is true, so the obligation starts on the `true` edge of the branch on the result.  Returns (start blocks, on_true)"""
    b = c.body
    cb = F.bodies.get(c.f)
    if cb is not None and cb.locals[0][0] == 'bool':
        stores = [w.bb for w in lowering if w.body.id == cb.id]
        if stores and _false_means_untouched(F, cb, stores):
            brs = [br for br in branches(F, b) if is_site(peel_not(br.desc)[0], c)]
            if brs and all(b.dominates(c.bb, br.bb) for br in brs):
                return [br.target(0 if peel_not(br.desc)[1] else 1) for br in brs], True
    return list(b.succ[c.bb]), False


def rule_h(ctx):
    """Datagrams::send admits a datagram against the maximum of the moment (rule b: current MTU).  When the MTU under the
    queue drops, a datagram admitted earlier no longer fits any packet: DatagramState::write puts it back at the head of the
    queue forever (rule c) and nothing behind it is ever sent.  Hence every reduction is followed by a purge with the NEW
    maximum, and the purge keeps exactly the datagrams send() would still accept (len <= max)."""
    F = ctx.facts
    writes = [w for w in field_writes(F, MTU, 'current_mtu', crate='quinn_proto') if w.kind in ('assign', 'callresult', 'mutborrow')]
    lowering = [w for w in writes if F.root_of(w.body).short not in _MTU_WRITERS_NOT_CLAIMED]
    lower_fns = sorted({F.root_of(w.body).short for w in lowering})
    ctx.floor('h', 'mtu_reducing_writers', len(lower_fns), 2)        # MtuDiscovery::reset, MtuDiscovery::black_hole_detected
    for n, why in sorted(_MTU_WRITERS_NOT_CLAIMED.items()):
        ctx.info('h', 'writer of MtuDiscovery.current_mtu not treated as a reduction: %s (%s)' % (n, why))
    # sites: (body, block, where, start blocks, what)
    sites = []
    for b in F.code_bodies('quinn_proto'):
        if not _is_conn_method(F, b):
            continue
        live = b.live_blocks()
        for c in b.calls():
            if c.bb not in live or not c.args or is_noise(c):
                continue
            depth = _live_path_place(arg_desc(F, c, 0))
            if depth is None:
                continue
            if c.is_('mem::replace', 'mem::swap', 'mem::take') and depth <= 1:
                # the live path (or its MTU state) replaced as a whole
                v = arg_desc(F, c, 1) if len(c.args) > 1 else ('const', 'other', '<default>', '')
                sites.append((b, c.bb, c.where(), list(b.succ[c.bb]), 'the live path is replaced by %s' % D.render(v)[:60], v))
            elif site_may_reach(F, c, lower_fns, 3):
                starts, on_true = _reports_reduction(F, c, lowering)
                sites.append((b, c.bb, c.where(), starts, '%s(self.path..) may reduce the MTU%s' % (short(c.f), ' (when it returns true)' if on_true else ''), None))
    for adt, fld in (('connection::Connection', 'path'), ('paths::PathData', 'mtud'), (MTU, 'current_mtu')):
        for w, v in store_values(ctx, adt, fld):
            if w.kind == 'callresult' or not _is_conn_method(F, w.body):
                continue
            d = describer(F, w.body).place(w.place, w.bb, w.idx) if w.kind == 'assign' else None
            tail = [e for e in w.place[1] if isinstance(e, list) and e[0] == 'f']
            if w.kind != 'assign' or not tail or tail[-1][1] != fld or w.place[1][-1] != tail[-1]:
                continue        # a store below the field (self.path.challenge = ..) is not a replacement
            if fld != 'path' and not any(e[1] == 'path' and e[2].endswith('connection::Connection') for e in tail):
                continue
            sites.append((w.body, w.bb, w.where(), [w.bb], 'the live %s is assigned %s' % (fld, D.render(v)[:60]), v if fld == 'path' else None))
    n = 0
    for b, bb, where, starts, what, val in sites:
        r = F.root_of(b)
        if val is not None:
            vs = flat(val)
            if all(D.has_field(x, 'prev_path') and not D.has_call(x, 'PathData::new', 'PathData::from_previous') for x in vs):
                ctx.info('h', '%s at %s: return to the previous path after a failed validation; not among the repaired sites, recorded and not claimed' % (what, where))
                continue
            if not all(_is_call(x, 'PathData::new') or _is_call(x, 'PathData::from_previous') for x in vs):
                ctx.bad('h', 'mtu_reduction_purges_queue/unclassified_path_replacement', r, where, '%s: neither a freshly built path nor the stored previous path' % what)
                continue
        n += 1
        if b.id != r.id:
            ctx.bad('h', 'mtu_reduction_purges_queue', r, where, '%s inside a closure: the purge cannot be tied to it' % what)
            continue
        pur = _purge_blocks(F, b)
        starts = [x for x in starts if x is not None]
        path = path_avoiding(b, starts, b.return_blocks(), pur) if starts else [bb]      # (a store's own block may end in the purge call)
        rej = '; '.join('%s: %s' % (c.where(), t) for c, t in _purge_attempts(F, b)[1])
        ctx.check(path is None, 'h', 'mtu_reduction_purges_queue', r, where, '%s: every path to a return then purges the queue with the new Datagrams::max_size()' % what,
                  '%s, but a path to a return never drops the queued datagrams that no longer fit (with the maximum computed afterwards): %s%s. They stay at the head of the queue and block every later datagram'
                  % (what, fmt_path(b, path or []), ('; rejected purge: ' + rej) if rej else ''))
    ctx.floor('h', 'mtu_reduction_sites', n, 3)       # black-hole fallback, path_changed, migrate
    # every purge anywhere uses the current maximum as its limit
    for c in F.callers_of('DatagramState::drop_oversized', crate='quinn_proto'):
        if is_noise(c):
            continue
        rej = [t for x, t in _purge_attempts(F, c.body)[1] if x.bb == c.bb and t.startswith('the limit is')]
        ctx.check(not rej, 'h', 'purge_limit_is_current_maximum', F.root_of(c.body), c.where(), 'drop_oversized(Some-payload of Datagrams::max_size())', 'purge with another limit than what send() admits: %s' % rej)
    # the purge keeps what still fits: keep <=> len <= max_payload
    do = ctx.pfn('DatagramState::drop_oversized')
    ret = [c for c in do.calls_to('VecDeque::retain', 'VecDeque::retain_mut')]
    cls = [cb for c in ret for cb in closure_args(F, c)]
    lim = do.locals[2][1] if do.argc >= 2 else None
    ok = len(cls) == 1 and lim is not None
    why = 'cannot locate the retain closure / the limit parameter of drop_oversized'
    if ok:
        cb = cls[0]
        d = describer(F, cb)

        def too_big(o, a, b_):
            # violating relation: limit < len(element.data)
            return o == 'Lt' and a == ('upvar', lim) and _is_call(b_, 'Bytes::len') and len(b_[3]) == 1 and b_[3][0][0] == 'field' and b_[3][0][2] == 'data' \
                and b_[3][0][1][0] == 'param' and 2 <= b_[3][0][1][1] <= cb.argc
        edges = guard_edges(ctx, cb, too_big)
        bad = []
        for df in cb.defs_of(0):
            if df[0] != 'stmt':
                bad.append('the kept/dropped decision is a call result')
                continue
            v = d.rvalue(df[3], df[1], df[2], 0)
            for x in flat(v):
                rel = relation_on(x, False)
                if rel is not None and too_big(*rel) and not (D.const_offsets(rel[1]) | D.const_offsets(rel[2])):
                    continue                 # returns the comparison itself: keep = len <= limit
                if _is_bool(x, True) or _is_bool(x, False):
                    # constant decision: `false` only over the too-big edge, `true` never over it
                    keep = _is_bool(x, True)
                    cov = [1 for br, truth, tgt in edges if cb.dominates(br.bb, df[1])
                           and (df[1] not in cb.reachable_from(tgt, avoid=[br.bb])) == keep
                           and (df[1] not in cb.reachable_from(br.target(0 if truth else 1), avoid=[br.bb])) == (not keep)]
                    if cov:
                        continue
                bad.append('returns %s' % D.render(x)[:80])
        ok = not bad and (bool(edges) or bool(cb.defs_of(0)))
        why = 'the retain predicate of drop_oversized is not `len <= max_payload`: %s' % (bad or 'no decision found')
        # the bytes are released for the dropped elements only
        rel_blocks = set()
        for i, j, pl, rv, line in cb.assigns():
            if i in cb.live_blocks() and pl[1] and pl[1][-1] == '*':
                tgt = d.place([pl[0], pl[1][:-1]], i, j)
                if tgt[0] == 'upvar' and _upvar_is(tgt, 'outgoing_total'):
                    rel_blocks.add(i)
        if ok and rel_blocks:
            unprot = [x for x in rel_blocks if not any(cb.dominates(br.bb, x) and x not in cb.reachable_from(br.target(0 if truth else 1), avoid=[br.bb]) for br, truth, tgt in edges)]
            ok = not unprot
            why = 'outgoing_total is released for datagrams that are kept (release not confined to the len > max_payload edge)'
    ctx.check(ok, 'h', 'purge_keeps_datagrams_that_fit', do, do.where(), 'retain(|d| d.data.len() <= max_payload): a datagram of exactly the maximum size stays queued', why)

def run(ctx):
    rule_a(ctx)
    rule_b(ctx)
    rule_c(ctx)
    rule_d(ctx)
    rule_e(ctx)
    rule_f(ctx)
    rule_g(ctx)
    rule_h(ctx)
    # obligations shared with a sibling property (evaluated by the owning module, reported here under letter x)
    from engine.rulelib import share as _share
    _share(ctx, 'C13', 'rule_d', 'x', 'the recorded peer max_udp_payload_size bounds the MTU on every reset: Datagrams::max_size() is derived from it')

