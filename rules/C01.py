"""C01 — stream data delivered reliably, in order, exactly once (structural part)."""
from engine.rulelib import *
from engine import desc as D
from rules import C12 as _c12

EXPLANATION = ("Static rules over quinn-proto/quinn MIR: (a) every site that takes a SentPacket out of sent_packets is classified (acked / lost / "
               "Retry / 0-RTT reject / space discard / forgotten tail); (b) in the lost class the packet's stream_frames always flow to "
               "StreamsState::retransmit and its retransmits to the space's pending set; the lost MTU probe carries nothing to resend; (c) in the "
               "acked class stream_frames flow to received_ack_of and reset_stream ids to reset_acked; (d) the Retry 0-RTT re-queue; (e) single-caller "
               "chains for SendBuffer::ack / retransmit; (f) single feeder chain into the receive Assembler; (g) Chunks::next reports end-of-stream only "
               "when the final size is known AND everything up to it was read, and a reset with the stored code; (h) STREAM frame bytes come from the "
               "polled SendBuffer range (shared with C05.f); (i) the ordered->unordered switch records the consumed prefix as received; the async "
               "ReadToEnd starts from an unset offset. Byte-exactness of Assembler/SendBuffer/RangeSet arithmetic is NOT decided.")
RULE = "rule instances = (rule, site) pairs over MIR call sites / flows / branches; non-trivial = bound to at least one real site"


def rule_a(ctx):
    F = ctx.facts
    n = 0
    for c in _c12.producers(ctx):
        r = F.root_of(c.body)
        key = (r.short, short(c.f))
        cls = _c12.CLASSES.get(key)
        n += 1
        ctx.check(cls is not None, 'a', 'sent_packet_producer_classified', r, c.where(), 'class %s' % cls,
                  'unclassified site takes a SentPacket out of sent_packets: its stream frames would be neither retransmitted nor acknowledged')
    ctx.floor('a', 'producers', n, 7)


def rule_b(ctx):
    F = ctx.facts
    dl = ctx.pfn('Connection::detect_lost_packets')
    takes = dl.calls_to('PacketSpace::take')
    ctx.floor('b', 'lost_take_sites', len(takes), 2)
    # the lost class = takes inside the `for &packet in &lost_packets` loop; the other is the lost MTU probe
    n_lost = 0
    for c in takes:
        a = arg_desc(F, c, 1)
        is_probe = D.render(a).find('lost_mtu_probe') >= 0 or D.has_call(a, 'MtuDiscovery::in_flight_mtu_probe')
        if is_probe:
            # the probe packet is built with SentFrames{non_retransmits: true, ..Default}: checked at its construction site
            ctx.ok('b', 'lost_mtu_probe_class', dl, c.where(), 'lost MTU probe (nothing to resend; see C01.b/probe_frames_empty)')
            continue
        n_lost += 1
        sinks = flow_sinks(F, c, ['StreamsState::retransmit'], via_field='stream_frames')
        iters = [x for x in dl.calls() if x.is_('IntoIterator::into_iter') and contains_site_via_field(arg_desc(F, x, 0), c, 'stream_frames')]
        binds = binding_blocks(F, c)
        okflow = bool(sinks) and bool(iters)
        path = None
        if okflow:
            for bb in binds:
                path = path_avoiding(dl, [bb], dl.return_blocks(), {x.bb for x in iters})
                if path:
                    okflow = False
        ctx.check(okflow, 'b', 'lost_stream_frames_retransmitted', dl, c.where(), 'for frame in info.stream_frames { streams.retransmit(frame) } on every path',
                  'stream frames of a lost packet are not (always) handed to StreamsState::retransmit%s' % ((': ' + fmt_path(dl, path)) if path else ''))
        rs = flow_sinks(F, c, ['BitOrAssign::bitor_assign', 'Retransmits::bitor_assign'], via_field='retransmits')
        okr = bool(rs)
        for bb in binds:
            if rs and path_avoiding(dl, [bb], dl.return_blocks(), {x.bb for x in rs}):
                okr = False
        ctx.check(okr, 'b', 'lost_control_frames_requeued', dl, c.where(), 'spaces[..].pending |= info.retransmits on every path',
                  'retransmittable control frames of a lost packet are not re-queued')
    ctx.floor('b', 'lost_class_sites', n_lost, 1)
    # MTU probe SentFrames literal: built from Default with only non_retransmits set
    pt = ctx.pfn('Connection::poll_transmit')
    cons = [c for c in constructions(F, 'SentFrames', 'SentFrames', crate='quinn_proto') if F.root_of(c.body).id == pt.id]
    d = describer(F, pt)
    for c in cons:
        sf = d.operand(c.field_op('stream_frames'), c.bb, c.idx)
        rt = d.operand(c.field_op('retransmits'), c.bb, c.idx)
        ok = D.has_call(sf, 'Default::default') or D.has_field(sf, 'stream_frames') and D.has_call(sf, 'default')
        ok = ok or 'default' in D.render(sf)
        ok2 = 'default' in D.render(rt)
        ctx.check(ok and ok2, 'b', 'probe_frames_empty', pt, c.where(), 'SentFrames{non_retransmits, ..default()}', 'a hand-built SentFrames in poll_transmit carries stream frames/retransmits that loss handling of probes would drop')
    who_may_call(ctx, 'b', 'retransmit_callers', ['StreamsState::retransmit'], ['Connection::detect_lost_packets'], floor=1)


def rule_c(ctx):
    F = ctx.facts
    opa = ctx.pfn('Connection::on_packet_acked')
    cs = opa.calls_to('StreamsState::received_ack_of')
    ok = bool(cs) and all(D.has_param(arg_desc(F, c, 1), name='info') and D.has_field(arg_desc(F, c, 1), 'stream_frames') for c in cs)
    iters = [x for x in opa.calls() if x.is_('IntoIterator::into_iter') and D.has_field(arg_desc(F, x, 0), 'stream_frames') and D.has_param(arg_desc(F, x, 0), name='info')]
    okall = ok and bool(iters) and path_avoiding(opa, [0], opa.return_blocks(), {x.bb for x in iters}) is None
    ctx.check(okall, 'c', 'acked_stream_frames_acknowledged', opa, opa.where(), 'for frame in info.stream_frames { received_ack_of(frame) } on every path',
              'stream frames of an acked packet are not (always) handed to received_ack_of')
    ra = opa.calls_to('StreamsState::reset_acked')
    ctx.check(bool(ra) and all(D.has_field(arg_desc(F, c, 1), 'reset_stream') for c in ra), 'c', 'acked_resets_confirmed', opa, opa.where(), 'reset_acked(id) for info.retransmits.reset_stream',
              'RESET_STREAM acknowledgements no longer reach reset_acked')
    who_may_call(ctx, 'c', 'received_ack_of_callers', ['StreamsState::received_ack_of'], ['Connection::on_packet_acked'], floor=1)
    who_may_call(ctx, 'c', 'on_packet_acked_callers', ['Connection::on_packet_acked'], ['Connection::on_ack_received', 'Connection::process_decrypted_packet'], floor=2)


def rule_d(ctx):
    F = ctx.facts
    pdp = ctx.pfn('Connection::process_decrypted_packet')
    r0 = pdp.calls_to('StreamsState::retransmit_all_for_0rtt')
    ctx.floor('d', 'retry_requeue_site', len(r0), 1)
    drains = [c for c in pdp.calls_to('SentPackets::into_values')]
    okd = False
    for c in drains:
        rs = flow_sinks(F, c, ['BitOrAssign::bitor_assign', 'Retransmits::bitor_assign'], via_field='retransmits')
        if rs and r0 and all(x.bb in pdp.reachable_from(c.bb) for x in r0):
            # retransmit_all_for_0rtt must follow the drain on every path
            p = must_follow(F, pdp, c.bb, ['StreamsState::retransmit_all_for_0rtt'], depth=0, exempt_returns=())
            okd = p is None
            ctx.check(okd, 'd', 'retry_requeues_0rtt', pdp, c.where(), 'pending |= info.retransmits; streams.retransmit_all_for_0rtt()', 'after a Retry the 0-RTT frames are not all re-queued')
    ctx.check(okd, 'd', 'retry_requeue_present', pdp, pdp.where(), 'found', 'Retry branch no longer re-queues the early packets frames')
    who_may_call(ctx, 'd', 'sendbuffer_0rtt_rewind_callers', ['SendBuffer::retransmit_all_for_0rtt'], ['StreamsState::retransmit_all_for_0rtt'], floor=1)
    who_may_write(ctx, 'd', 'sendbuffer_unsent_writers', 'SendBuffer', 'unsent', ['SendBuffer::poll_transmit', 'SendBuffer::retransmit_all_for_0rtt'], floor=2)


def rule_e(ctx):
    who_may_call(ctx, 'e', 'sendbuffer_ack_callers', ['SendBuffer::ack'], ['Send::ack'], floor=1)
    who_may_call(ctx, 'e', 'send_ack_callers', ['Send::ack'], ['StreamsState::received_ack_of'], floor=1)
    who_may_call(ctx, 'e', 'sendbuffer_retransmit_callers', ['SendBuffer::retransmit'], ['StreamsState::retransmit'], floor=1)
    F = ctx.facts
    ra = ctx.pfn('StreamsState::received_ack_of')
    for c in ra.calls_to('Send::ack'):
        a = arg_desc(F, c, 1)
        ctx.check(D.has_param(a, name='frame'), 'e', 'ack_applies_the_acked_frame', ra, c.where(), D.render(a), 'Send::ack is given something other than the acked frame')
    rt = ctx.pfn('StreamsState::retransmit')
    for c in rt.calls_to('SendBuffer::retransmit'):
        a = arg_desc(F, c, 1)
        ctx.check(D.has_param(a, name='frame') and D.has_field(a, 'offsets'), 'e', 'retransmit_requeues_lost_range', rt, c.where(), D.render(a), 'SendBuffer::retransmit is not given the lost frames offsets')
    # fin_pending |= frame.fin
    fp = [(w, v) for w, v in store_values(ctx, 'send::Send', 'fin_pending') if F.root_of(w.body).id == rt.id]
    ctx.check(any(D.has_field(v, 'fin') and D.has_param(v, name='frame') for w, v in fp), 'e', 'lost_fin_requeued', rt, rt.where(), 'fin_pending |= frame.fin', 'a lost FIN is no longer re-queued')


def rule_f(ctx):
    who_may_call(ctx, 'f', 'assembler_insert_callers', ['Assembler::insert'], ['Recv::ingest', 'Connection::read_crypto'], floor=2)
    who_may_call(ctx, 'f', 'ingest_callers', ['Recv::ingest'], ['StreamsState::received'], floor=1)
    who_may_call(ctx, 'f', 'received_callers', ['StreamsState::received'], ['Connection::process_payload'], floor=1)
    who_may_call(ctx, 'f', 'assembler_read_callers', ['Assembler::read'], ['Chunks::next', 'Connection::read_crypto'], floor=2)
    F = ctx.facts
    ing = ctx.pfn('Recv::ingest')
    for c in ing.calls_to('Assembler::insert'):
        off = arg_desc(F, c, 1)
        dat = arg_desc(F, c, 2)
        ctx.check(D.has_param(off, name='frame') and D.has_field(off, 'offset') and off[0] == 'field' and D.has_field(dat, 'data') and dat[0] == 'field', 'f', 'ingest_inserts_frame_at_its_offset', ing, c.where(),
                  'assembler.insert(frame.offset, frame.data, ..)', 'Assembler::insert is not given the frames own offset/data: %s / %s' % (D.render(off), D.render(dat)))


def rule_g(ctx):
    F = ctx.facts
    nx = ctx.pfn('Chunks::next')
    fin_stores = [c for c in constructions(F, 'recv::ChunksState', 'Finished', crate='quinn_proto') if F.root_of(c.body).id == nx.id]
    ctx.floor('g', 'finished_transition_sites', len(fin_stores), 1)
    e1 = guard_edges(ctx, nx, lambda o, a, b: o == 'Eq' and ((D.has_field(a, 'size') or 'size' in D.render(a)) and D.has_field(b, 'end') or (D.has_field(b, 'size') or 'size' in D.render(b)) and D.has_field(a, 'end')))
    e2 = guard_edges(ctx, nx, lambda o, a, b: o == 'Eq' and ((D.has_call(a, 'Assembler::bytes_read') and D.has_field(b, 'end')) or (D.has_call(b, 'Assembler::bytes_read') and D.has_field(a, 'end'))))
    # `size == Some(rs.end)` is an Option comparison (PartialEq call); accept either form
    if not e1:
        e1 = bool_edges(ctx, nx, lambda d: d[0] == 'bin' and d[1] == 'Eq' and D.has_field(d, 'end') and 'size' in D.render(d))
        e1 = [(br, t, tg) for br, t, tg in e1 if t]
    ok = bool(e1) and bool(e2)
    if ok:
        for c in fin_stores:
            for br, t, tgt in e1 + e2:
                if not edge_dominates(nx, br.bb, tgt, c.bb):
                    ok = False
    ctx.check(ok, 'g', 'eof_requires_known_size_and_all_read', nx, nx.where(), 'Finished only on size == Some(end) && bytes_read == end',
              'end-of-stream can be reported without both `size == Some(end)` and `bytes_read == end` holding')
    # reset reports the stored code
    rs = [c for c in constructions(F, 'ReadError', 'Reset', crate='quinn_proto') if F.root_of(c.body).id == nx.id]
    d = describer(F, nx)
    okr = bool(rs) and all(D.has_field(d.operand(c.ops[0], c.bb, c.idx), 'error_code') or 'error_code' in D.render(d.operand(c.ops[0], c.bb, c.idx)) or d.operand(c.ops[0], c.bb, c.idx)[0] == 'field' for c in rs)
    ctx.check(okr, 'g', 'reset_reports_senders_code', nx, nx.where(), 'ReadError::Reset(error_code from RecvState/ChunksState)', 'reset is reported with something other than the received error code')
    rst = ctx.pfn('Recv::reset')
    cons = [c for c in constructions(F, 'recv::RecvState', 'ResetRecvd', crate='quinn_proto') if F.root_of(c.body).id == rst.id]
    d2 = describer(F, rst)
    okc = bool(cons) and all(D.has_param(d2.operand(c.field_op('error_code'), c.bb, c.idx), name='error_code') for c in cons)
    ctx.check(okc, 'g', 'reset_stores_received_code', rst, rst.where(), 'ResetRecvd{error_code: <param>}', 'Recv::reset stores something other than the received error code')


def rule_i(ctx):
    F = ctx.facts
    eo = ctx.pfn('Assembler::ensure_ordering')
    ins = [c for c in eo.calls() if c.is_('RangeSet::insert', 'BTreeRangeSet::insert', 'ArrayRangeSet::insert')]
    ok = any(D.has_field(arg_desc(F, c, 1), 'bytes_read') and D.has_const(arg_desc(F, c, 1), 0) for c in ins)
    ctx.check(ok, 'i', 'unordered_switch_remembers_consumed_prefix', eo, eo.where(), 'recvd.insert(0..bytes_read)',
              'switching to unordered reads no longer records the already-consumed prefix 0..bytes_read as received (late duplicates would be delivered again)')
    ctx.check(len(ins) >= 2, 'i', 'unordered_switch_remembers_buffered_chunks', eo, eo.where(), '%d insert sites' % len(ins), 'buffered chunks are not recorded as received on the ordered->unordered switch')
    # async ReadToEnd starts with start = u64::MAX (unset) so the first chunk offset defines the start
    rte = ctx.qfn('RecvStream::read_to_end')
    cons = [c for c in constructions(F, 'ReadToEnd', 'ReadToEnd', crate='quinn')]
    okk = False
    for c in cons:
        d = describer(F, c.body)
        v = d.operand(c.field_op('start'), c.bb, c.idx)
        okk = okk or (v[0] == 'const' and (str(v[2]) == str(2**64 - 1) or 'MAX' in str(v[3])))
    ctx.check(okk and bool(cons), 'i', 'read_to_end_starts_unset', rte, rte.where(), 'ReadToEnd{start: u64::MAX}', 'ReadToEnd no longer starts from an unset offset: data read before read_to_end would be replaced by zero bytes')


def run(ctx):
    rule_a(ctx)
    rule_b(ctx)
    rule_c(ctx)
    rule_d(ctx)
    rule_e(ctx)
    rule_f(ctx)
    rule_g(ctx)
    rule_i(ctx)
    ctx.info('h', 'STREAM frame bytes/ranges provenance is rule C05.f (shared)')
