"""C01 — stream data delivered reliably, in order, exactly once (structural part)."""
from engine.rulelib import *
from engine import desc as D
from rules import C12 as _c12

EXPLANATION = ("Static rules over quinn-proto/quinn MIR: (a) every site that takes a SentPacket out of sent_packets is classified (acked / lost / "
               "Retry / 0-RTT reject / space discard / forgotten tail); (b) in the lost class the packet's stream_frames always flow to "
               "StreamsState::retransmit and its retransmits to the space's pending set; the lost MTU probe carries nothing to resend; (c) in the "
               "acked class stream_frames flow to received_ack_of and reset_stream ids to reset_acked; (d) the Retry 0-RTT re-queue; (e) single-caller "
               "chains for SendBuffer::ack / retransmit, called with exactly the acked / lost frame, and the split of a popped lost range in SendBuffer::poll_transmit returns "
               "start..end and re-queues end..range.end from the same `end`; (f) single feeder chain into the receive Assembler; (g) Chunks::next reports end-of-stream only "
               "when the final size is known AND everything up to it was read, and a reset with the stored code; (h) STREAM frame bytes come from the "
               "polled SendBuffer range (shared with C05.f); (i) the ordered->unordered switch records the consumed prefix as received; the async "
               "ReadToEnd starts from an unset offset; Buffer::try_mark_defragment leaves the chunk offset >= the running end on every path (defragment's trimming position never "
               "falls back); (e, cont.) SendBuffer::poll_transmit omits the STREAM length field only over the edge `room <= available bytes` and clamps the range to that same room "
               "(a length-less frame reaches the end of the room, so padding is never parsed as stream data). Byte-exactness of Assembler/RangeSet arithmetic and of SendBuffer "
               "beyond these shapes is NOT decided.")
RULE = "rule instances = (rule, site) pairs over MIR call sites / flows / branches; non-trivial = bound to at least one real site"


def rule_a(ctx):
    F = ctx.facts
    n = 0
    for c in _c12.producers(ctx):
        r = F.root_of(c.body)
        key = (r.short, short(c.f))
        cls = _c12.CLASSES.get(key)
        n += 1
        ctx.check(cls is not None, 'a', 'sent_packet_producer_classified', r, c.where(), 'class %s' % cls,
                  'unclassified site takes a SentPacket out of sent_packets: its stream frames would be neither retransmitted nor acknowledged')
    ctx.floor('a', 'producers', n, 7)


# --------------------------------------------------------------------------
# structural helpers (exact shapes instead of "mentions X somewhere")
# --------------------------------------------------------------------------

def _meth(sh):
    """last path segment of a callee short name (`<X as Tr>::m` -> `m`)"""
    return sh.rsplit('::', 1)[-1]


def _is_call(d, *pats):
    """d IS a call of one of pats (not: contains one)"""
    return isinstance(d, tuple) and d[0] == 'call' and (d[1] in pats or D._trait_form(d[1]) in pats or any(path_matches(d[2], p) for p in pats))


def _is(d, site):
    """d IS the result of the call site (no phi, no wrapper)"""
    return isinstance(d, tuple) and d[0] == 'call' and len(d) > 4 and d[4] == site.bb and short(site.f) == d[1]


def _is_pfield(d, pname, *fields):
    """d is exactly `<param pname>.f1.f2..`"""
    for f in reversed(fields):
        if d[0] != 'field' or d[2] != f:
            return False
        d = d[1]
    return d[0] == 'param' and d[2] == pname


def _some_payload(d):
    """`(X as Some).0` / `X.unwrap()` / `X.expect(..)` -> X, else None"""
    if d[0] == 'field' and d[2] == '0' and d[1][0] == 'variant' and d[1][2] in ('Some', 'Ok'):
        return d[1][1]
    if d[0] == 'call' and _meth(d[1]) in ('unwrap', 'expect', 'unwrap_unchecked') and d[3]:
        return d[3][0]
    return None


def _payload_of(d, site):
    x = _some_payload(d)
    return x is not None and _is(x, site)


def _nobb(d):
    """descriptor with call-site blocks erased: the same expression evaluated at two sites compares equal"""
    if not isinstance(d, tuple):
        return d
    if d and d[0] == 'call' and len(d) > 4:
        return ('call', d[1], d[2], tuple(_nobb(x) for x in d[3]))
    if d and d[0] == 'bin' and len(d) > 4:
        return ('bin', d[1], _nobb(d[2]), _nobb(d[3]))
    return tuple(_nobb(x) for x in d)


# iterator adaptors / views that yield every element of their receiver exactly once
_ELEMENTWISE = ('iter', 'iter_mut', 'into_iter', 'cloned', 'copied', 'by_ref', 'deref', 'deref_mut', 'as_slice', 'as_mut_slice', 'as_ref', 'as_mut')


def _peel_iter(d):
    while d[0] == 'call' and _meth(d[1]) in _ELEMENTWISE and len(d[3]) == 1:
        d = d[3][0]
    return d


def _for_loop(F, body, sink, argi, proj=()):
    """The argument `argi` of call `sink` is (the field path `proj` of) the element bound by a loop on `Iterator::next`,
    every iteration reaches the sink, and after the sink the loop continues with the next element.
    Returns dict(H = block of the `next` call, X = the iterated value with element-preserving adaptors peeled,
    S / N = targets of the Some / None edge) or a str saying what is wrong."""
    a = arg_desc(F, sink, argi)
    for f in reversed(proj):
        if a[0] != 'field' or a[2] != f:
            return 'argument is not `.%s` of a loop element: %s' % ('.'.join(proj), D.render(a)[:160])
        a = a[1]
    nxt = _some_payload(a)
    if not (a[0] == 'field' and nxt is not None and nxt[0] == 'call' and _meth(nxt[1]) == 'next' and len(nxt[3]) == 1 and len(nxt) > 4):
        return 'argument is not the element of a loop: %s' % D.render(a)[:160]
    H = nxt[4]
    brs = [br for br in branches(F, body) if br.desc[0] == 'discr' and br.desc[1][0] == 'call' and len(br.desc[1]) > 4 and br.desc[1][4] == H and br.desc[1][1] == nxt[1]]
    if len(brs) != 1:
        return 'loop header branch on the iterator result not found'
    br = brs[0]
    S, N = br.target(1), br.target(0)
    rets = set(body.return_blocks())
    p = path_avoiding(body, [S], rets | {H}, {sink.bb})
    if p:
        return 'an iteration can skip the call: ' + fmt_path(body, p)
    if sink.t is not None:
        p = path_avoiding(body, [sink.t], rets, {H})
        if p:
            return 'the loop can be left after the call without visiting the remaining elements: ' + fmt_path(body, p)
    return {'H': H, 'X': _peel_iter(nxt[3][0]), 'S': S, 'N': N, 'br': br}


def _for_each(F, call, sink_pats, argi):
    """`X.for_each(|e| ..)` == `for e in X { .. }`: `call` is std's Iterator::for_each (which hands every element the
    iterator yields to the closure, once each, and cannot stop early), its closure argument is ONE closure literal built at
    the call, and every entry->return path of that closure passes a call of sink_pats whose argument `argi` IS the closure's
    element parameter.  Returns dict(X = the iterated value with element-preserving adaptors peeled, K = closure body) or a
    str saying what is wrong."""
    if not (call.f and canon(call.f) in ('std::iter::Iterator::for_each', 'core::iter::Iterator::for_each') and len(call.args) == 2):
        return 'not a call of Iterator::for_each'
    k = arg_desc(F, call, 1)
    if not (k[0] == 'agg' and k[1] == 'closure'):
        return 'the argument of for_each is not a closure literal: %s' % D.render(k)[:160]
    ks = [b for b in F.bodies.values() if b.canon == k[2] and b.kind == 'closure']
    if len(ks) != 1 or ks[0].argc != 2:
        return 'closure body of for_each not found'
    K = ks[0]
    live = K.live_blocks()
    sinks = set()
    for x in K.calls():
        if x.bb in live and x.is_(*sink_pats) and len(x.args) > argi:
            a = arg_desc(F, x, argi)
            if a[0] == 'param' and a[1] == 2:
                sinks.add(x.bb)
    if not sinks:
        return 'the for_each closure does not hand its element to the call'
    p = path_avoiding(K, [0], K.return_blocks(), sinks)
    if p:
        return 'an iteration of the for_each closure can skip the call: ' + fmt_path(K, p)
    return {'X': _peel_iter(arg_desc(F, call, 0)), 'K': K}


def _none_edges(F, body, pred):
    """(from, to) of the None/Err edge of every branch on the discriminant of a value satisfying pred"""
    return {(br.bb, br.target(0)) for br in branches(F, body) if br.desc[0] == 'discr' and pred(br.desc[1])}


BITOR = ['BitOrAssign::bitor_assign', 'Retransmits::bitor_assign']


def rule_b(ctx):
    F = ctx.facts
    dl = ctx.pfn('Connection::detect_lost_packets')
    takes = dl.calls_to('PacketSpace::take')
    ctx.floor('b', 'lost_take_sites', len(takes), 2)
    rets = dl.return_blocks()
    # the lost class = every take whose packet number is not exactly the in-flight MTU probe
    n_lost = 0
    for c in takes:
        a = arg_desc(F, c, 1)
        # probe class: the number taken is `(x as Some).0` / unwrap of a value whose every non-None source IS the result
        # of MtuDiscovery::in_flight_mtu_probe() (decided on the value, not on the name of the local that carries it)
        src = _some_payload(a)
        alts = [x for x in flat(src)] if src is not None else []
        alts = [x for x in alts if not (x[0] == 'agg' and x[2].endswith('Option::None'))]
        is_probe = bool(alts) and all(_is_call(x, 'MtuDiscovery::in_flight_mtu_probe') and _is_pfield(x[3][0], 'self', 'path', 'mtud') for x in alts)
        if is_probe:
            # the probe packet is built with SentFrames{non_retransmits: true, ..Default}: checked at its construction site
            ctx.ok('b', 'lost_mtu_probe_class', dl, c.where(), 'lost MTU probe (nothing to resend; see C01.b/probe_frames_empty)')
            continue
        n_lost += 1
        binds = binding_blocks(F, c)
        # for frame in info.stream_frames { streams.retransmit(frame) }
        heads, why = set(), ''
        for x in flow_sinks(F, c, ['StreamsState::retransmit'], via_field='stream_frames'):
            lp = _for_loop(F, dl, x, 1)
            if isinstance(lp, str):
                why = lp
            elif not (lp['X'][0] == 'field' and lp['X'][2] == 'stream_frames' and _payload_of(lp['X'][1], c)):
                why = 'the loop runs over %s, not over all of the lost packets stream_frames' % D.render(lp['X'])[:200]
            else:
                heads.add(lp['H'])
        # info.stream_frames.into_iter().for_each(|frame| streams.retransmit(frame)): the same loop as a closure
        for x in flow_sinks(F, c, ['Iterator::for_each'], via_field='stream_frames', arg=0):
            fe = _for_each(F, x, ['StreamsState::retransmit'], 1)
            if isinstance(fe, str):
                why = why or fe
            elif not (fe['X'][0] == 'field' and fe['X'][2] == 'stream_frames' and _payload_of(fe['X'][1], c)):
                why = why or 'for_each runs over %s, not over all of the lost packets stream_frames' % D.render(fe['X'])[:200]
            else:
                heads.add(x.bb)
        okflow = bool(heads) and bool(binds)
        if okflow:
            for bb in binds:
                path = path_avoiding(dl, [bb], rets, heads)
                if path:
                    okflow = False
                    why = fmt_path(dl, path)
        ctx.check(okflow, 'b', 'lost_stream_frames_retransmitted', dl, c.where(), 'for frame in info.stream_frames { streams.retransmit(frame) } on every path',
                  'stream frames of a lost packet are not (always, all) handed to StreamsState::retransmit%s' % ((': ' + why) if why else ''))
        # spaces[space].pending |= info.retransmits (same space the packet was taken from)
        sp = _nobb(arg_desc(F, c, 0))
        rs = []
        for x in flow_sinks(F, c, BITOR, via_field='retransmits'):
            a0, a1 = arg_desc(F, x, 0), arg_desc(F, x, 1)
            if a1[0] == 'field' and a1[2] == 'retransmits' and _payload_of(a1[1], c) and a0[0] == 'field' and a0[2] == 'pending' and _nobb(a0[1]) == sp:
                rs.append(x)
        okr = bool(rs) and bool(binds)
        for bb in binds:
            if rs and path_avoiding(dl, [bb], rets, {x.bb for x in rs}):
                okr = False
        ctx.check(okr, 'b', 'lost_control_frames_requeued', dl, c.where(), 'spaces[..].pending |= info.retransmits on every path',
                  'retransmittable control frames of a lost packet are not (always) re-queued into the pending set of the space the packet was sent in')
    ctx.floor('b', 'lost_class_sites', n_lost, 1)
    # MTU probe SentFrames literal: built from Default with only non_retransmits set
    pt = ctx.pfn('Connection::poll_transmit')
    cons = [c for c in constructions(F, 'SentFrames', 'SentFrames', crate='quinn_proto') if F.root_of(c.body).id == pt.id]
    d = describer(F, pt)
    for c in cons:
        sf = d.operand(c.field_op('stream_frames'), c.bb, c.idx)
        rt = d.operand(c.field_op('retransmits'), c.bb, c.idx)
        ok = D.has_call(sf, 'Default::default') or D.has_field(sf, 'stream_frames') and D.has_call(sf, 'default')
        ok = ok or 'default' in D.render(sf)
        ok2 = 'default' in D.render(rt)
        ctx.check(ok and ok2, 'b', 'probe_frames_empty', pt, c.where(), 'SentFrames{non_retransmits, ..default()}', 'a hand-built SentFrames in poll_transmit carries stream frames/retransmits that loss handling of probes would drop')
    who_may_call(ctx, 'b', 'retransmit_callers', ['StreamsState::retransmit'], ['Connection::detect_lost_packets'], floor=1)


def rule_c(ctx):
    F = ctx.facts
    opa = ctx.pfn('Connection::on_packet_acked')
    rets = opa.return_blocks()
    # for frame in info.stream_frames { received_ack_of(frame) }: the whole collection, every element, on every path
    heads, why = set(), ''
    for c in opa.calls_to('StreamsState::received_ack_of'):
        lp = _for_loop(F, opa, c, 1)
        if isinstance(lp, str):
            why = lp
        elif not _is_pfield(lp['X'], 'info', 'stream_frames'):
            why = 'the loop runs over %s, not over all of info.stream_frames' % D.render(lp['X'])[:200]
        else:
            heads.add(lp['H'])
    okall = bool(heads)
    if okall:
        p = path_avoiding(opa, [0], rets, heads)
        if p:
            okall, why = False, 'a path skips the loop: ' + fmt_path(opa, p)
    ctx.check(okall, 'c', 'acked_stream_frames_acknowledged', opa, opa.where(), 'for frame in info.stream_frames { received_ack_of(frame) } on every path',
              'stream frames of an acked packet are not (always, all) handed to received_ack_of%s' % ((': ' + why) if why else ''))
    # if let Some(r) = info.retransmits.get() { for (id, _) in r.reset_stream.iter() { reset_acked(*id) } }: only the None
    # edge of get() may skip the loop
    heads, why, gets = set(), '', set()
    for c in opa.calls_to('StreamsState::reset_acked'):
        lp = _for_loop(F, opa, c, 1, proj=('0',))
        if isinstance(lp, str):
            why = lp
            continue
        X = lp['X']
        g = _some_payload(X[1]) if X[0] == 'field' and X[2] == 'reset_stream' else None
        if g is None or not (_is_call(g, 'ThinRetransmits::get') and len(g[3]) == 1 and _is_pfield(g[3][0], 'info', 'retransmits')):
            why = 'the loop runs over %s, not over all of info.retransmits.get()?.reset_stream' % D.render(X)[:200]
            continue
        heads.add(lp['H'])
        gets.add(g[4])
    okr = bool(heads)
    if okr:
        ex = _none_edges(F, opa, lambda v: _is_call(v, 'ThinRetransmits::get') and len(v) > 4 and v[4] in gets)
        reach = opa.reachable_from(0, avoid=heads, avoid_edges=ex)
        if any(r in reach for r in rets):
            okr, why = False, 'a path on which info.retransmits.get() is Some skips the reset_stream loop'
    ctx.check(okr, 'c', 'acked_resets_confirmed', opa, opa.where(), 'reset_acked(id) for every id of info.retransmits.reset_stream, whenever retransmits is present',
              'RESET_STREAM acknowledgements no longer (always, all) reach reset_acked%s' % ((': ' + why) if why else ''))
    who_may_call(ctx, 'c', 'received_ack_of_callers', ['StreamsState::received_ack_of'], ['Connection::on_packet_acked'], floor=1)
    who_may_call(ctx, 'c', 'on_packet_acked_callers', ['Connection::on_packet_acked'], ['Connection::on_ack_received', 'Connection::process_decrypted_packet'], floor=2)


def rule_d(ctx):
    F = ctx.facts
    pdp = ctx.pfn('Connection::process_decrypted_packet')
    rets = pdp.return_blocks()
    r0 = pdp.calls_to('StreamsState::retransmit_all_for_0rtt')
    ctx.floor('d', 'retry_requeue_site', len(r0), 1)
    # the Retry drain = the drain of sent_packets after which retransmit_all_for_0rtt is reachable (the other drain
    # discards rejected 0-RTT packets, C12)
    drains = [c for c in pdp.calls_to('SentPackets::into_values') if any(x.bb in pdp.reachable_from(c.bb) for x in r0)]
    okd = False
    for c in drains:
        # for info in zero_rtt.into_values() { spaces[Data].pending |= info.retransmits }: every element, every iteration
        src = arg_desc(F, c, 0)
        spaces = {_nobb(x[1]) for x in D.walk(src) if x[0] == 'field' and x[2] == 'sent_packets'}
        heads, why = set(), ''
        for x in pdp.calls():
            if not x.is_(*BITOR) or x.bb not in pdp.reachable_from(c.bb):
                continue
            lp = _for_loop(F, pdp, x, 1, proj=('retransmits',))
            if isinstance(lp, str):
                if contains_site(arg_desc(F, x, 1), c):
                    why = lp
                continue
            if not _is(lp['X'], c):
                continue
            a0 = arg_desc(F, x, 0)
            if not (a0[0] == 'field' and a0[2] == 'pending' and _nobb(a0[1]) in spaces):
                why = 'the retransmits are queued into %s, not into the pending set of the drained space' % D.render(a0)[:160]
                continue
            heads.add(lp['H'])
        ok = bool(heads)
        if ok:
            p = path_avoiding(pdp, list(pdp.succ[c.bb]), rets, heads)
            if p:
                ok, why = False, 'a path after the drain skips the loop: ' + fmt_path(pdp, p)
        if ok:
            # retransmit_all_for_0rtt must follow the drain on every path
            p = must_follow(F, pdp, c.bb, ['StreamsState::retransmit_all_for_0rtt'], depth=0, exempt_returns=())
            if p:
                ok, why = False, 'a path after the drain avoids retransmit_all_for_0rtt: ' + fmt_path(pdp, p)
        okd = okd or ok
        ctx.check(ok, 'd', 'retry_requeues_0rtt', pdp, c.where(), 'pending |= info.retransmits for every drained packet; streams.retransmit_all_for_0rtt()',
                  'after a Retry the 0-RTT frames are not all re-queued%s' % ((': ' + why) if why else ''))
    ctx.check(okd, 'd', 'retry_requeue_present', pdp, pdp.where(), 'found', 'Retry branch no longer re-queues the early packets frames')
    who_may_call(ctx, 'd', 'sendbuffer_0rtt_rewind_callers', ['SendBuffer::retransmit_all_for_0rtt'], ['StreamsState::retransmit_all_for_0rtt'], floor=1)
    who_may_write(ctx, 'd', 'sendbuffer_unsent_writers', 'SendBuffer', 'unsent', ['SendBuffer::poll_transmit', 'SendBuffer::retransmit_all_for_0rtt'], floor=2)


def _is_range(d, start_pred, end_pred):
    return d[0] == 'agg' and d[1] == 'adt' and d[2].endswith('Range::Range') and len(d[3]) == 2 and start_pred(d[3][0]) and end_pred(d[3][1])


def rule_e(ctx):
    who_may_call(ctx, 'e', 'sendbuffer_ack_callers', ['SendBuffer::ack'], ['Send::ack'], floor=1)
    who_may_call(ctx, 'e', 'send_ack_callers', ['Send::ack'], ['StreamsState::received_ack_of'], floor=1)
    who_may_call(ctx, 'e', 'sendbuffer_retransmit_callers', ['SendBuffer::retransmit'], ['StreamsState::retransmit'], floor=1)
    F = ctx.facts
    ra = ctx.pfn('StreamsState::received_ack_of')
    acks = ra.calls_to('Send::ack')
    ctx.floor('e', 'ack_sites', len(acks), 1)
    for c in acks:
        a = arg_desc(F, c, 1)
        # the argument IS the parameter, or a StreamMeta rebuilt field by field from it
        ok = _is_pfield(a, 'frame')
        if not ok and a[0] == 'agg' and a[1] == 'adt' and a[2].endswith('StreamMeta::StreamMeta') and len(a) > 4:
            ok = all(_is_pfield(v, 'frame', f) or (f == 'offsets' and _is_range(v, lambda s: _is_pfield(s, 'frame', 'offsets', 'start'), lambda e: _is_pfield(e, 'frame', 'offsets', 'end')))
                     for f, v in zip(a[4], a[3]))
        ctx.check(ok, 'e', 'ack_applies_the_acked_frame', ra, c.where(), D.render(a), 'Send::ack is given something other than exactly the acked frame: %s' % D.render(a)[:200])
    rt = ctx.pfn('StreamsState::retransmit')
    rets = rt.return_blocks()
    # only "the stream no longer exists" (None edge of the lookup of frame.id in self.send) may skip the re-queueing
    gone = _none_edges(F, rt, lambda v: any(_is_call(x, 'HashMap::get_mut', 'HashMap::get', 'HashMap::entry') and len(x[3]) == 2 and _is_pfield(x[3][0], 'self', 'send')
                                            and _is_pfield(x[3][1], 'frame', 'id') for x in D.walk(v)))
    rq = rt.calls_to('SendBuffer::retransmit')
    ctx.floor('e', 'retransmit_sites', len(rq), 1)
    good = set()
    for c in rq:
        a = arg_desc(F, c, 1)
        ok = _is_pfield(a, 'frame', 'offsets') or _is_range(a, lambda s: _is_pfield(s, 'frame', 'offsets', 'start'), lambda e: _is_pfield(e, 'frame', 'offsets', 'end'))
        if ok:
            good.add(c.bb)
        ctx.check(ok, 'e', 'retransmit_requeues_lost_range', rt, c.where(), D.render(a), 'SendBuffer::retransmit is not given exactly the lost frames offsets: %s' % D.render(a)[:200])
    if good:
        reach = rt.reachable_from(0, avoid=good, avoid_edges=gone)
        ctx.check(not any(r in reach for r in rets), 'e', 'retransmit_requeues_lost_range', rt, rt.where(), 'on every path on which the stream exists',
                  'a lost range of a stream that still exists is not always re-queued (SendBuffer::retransmit can be skipped)')
    # fin_pending |= frame.fin: whenever frame.fin is set fin_pending becomes true, and no store in this function can clear it
    fp = [(w, v) for w, v in store_values(ctx, 'send::Send', 'fin_pending') if F.root_of(w.body).id == rt.id]
    sets, clears = set(), []
    for w, v in fp:
        d = describer(F, w.body)
        is_or = False
        if v[0] == 'bin' and v[1] == 'BitOr' and w.body.id == rt.id and w.place[1] and isinstance(w.place[1][-1], list) and w.place[1][-1][0] == 'f':
            old = ('field', d.place([w.place[0], w.place[1][:-1]], w.bb, w.idx), 'fin_pending')
            is_or = (v[2] == old and _is_pfield(v[3], 'frame', 'fin')) or (v[3] == old and _is_pfield(v[2], 'frame', 'fin'))
        is_true = v[0] == 'const' and v[1] == 'int' and str(v[2]) == '1'
        if (is_or or is_true) and w.body.id == rt.id:
            sets.add(w.bb)
        else:
            clears.append((w, v))
    nofin = {(br.bb, tgt) for br, t, tgt in bool_edges(ctx, rt, lambda x: _is_pfield(x, 'frame', 'fin')) if not t}
    okf = bool(sets) and not clears
    whyf = ''
    if clears:
        whyf = ': the store at %s writes %s, which can clear a FIN that is already pending' % (clears[0][0].where(), D.render(clears[0][1])[:160])
    elif sets:
        reach = rt.reachable_from(0, avoid=sets, avoid_edges=gone | nofin)
        if any(r in reach for r in rets):
            okf, whyf = False, ': a path on which the stream exists and frame.fin is set skips the store'
    ctx.check(okf, 'e', 'lost_fin_requeued', rt, rt.where(), 'fin_pending |= frame.fin', 'a lost FIN is no longer (always) re-queued, or a pending FIN can be cleared' + whyf)
    rule_e_split(ctx)
    rule_e_length(ctx)


def rule_e_split(ctx):
    """SendBuffer::poll_transmit, retransmission branch: the popped lost range R is split at ONE point `end`:
    R.start..end is returned and, unless end == R.end, end..R.end goes back into self.retransmits."""
    F = ctx.facts
    pt = ctx.pfn('SendBuffer::poll_transmit')
    d = describer(F, pt)
    rets = pt.return_blocks()
    pops = [c for c in pt.calls() if _meth(short(c.f)) == 'pop_min' and c.args and _is_pfield(arg_desc(F, c, 0), 'self', 'retransmits')]
    ctx.floor('e', 'retransmit_pop_sites', len(pops), 1)
    for c in pops:
        isR = lambda x, f: x[0] == 'field' and x[2] == f and _payload_of(x[1], c)
        why = ''
        somes = [(br.bb, br.target(1)) for br in branches(F, pt) if br.desc[0] == 'discr' and _is(br.desc[1], c)]
        ok = len(somes) == 1
        if not ok:
            why = 'branch on the popped range not found'
        else:
            hb, S = somes[0]
            # values returned in the retransmission branch
            outs = []
            for df in pt.defs_of(0):
                if df[0] == 'stmt' and df[1] in pt.live_blocks() and edge_dominates(pt, hb, S, df[1]) and df[1] in pt.reachable_from(S):
                    outs.append((df[1], d.rvalue(df[3], df[1], df[2], 0)))
            if not outs or path_avoiding(pt, [S], rets, {bb for bb, v in outs}):
                ok, why = False, 'the value returned for a retransmission is not a tuple built in that branch'
            for bb, v in outs:
                if not ok:
                    break
                if not (v[0] == 'agg' and v[1] == 'tuple' and len(v[3]) == 2 and _is_range(v[3][0], lambda s: isR(s, 'start'), lambda e: True)):
                    ok, why = False, 'the returned range does not start at the popped range start: %s' % D.render(v)[:200]
                    break
                E = v[3][0][3][1]
                if isR(E, 'end'):
                    continue        # whole range returned: nothing left over
                ins = {x.bb for x in pt.calls() if _meth(short(x.f)) == 'insert' and len(x.args) == 2 and _is_pfield(arg_desc(F, x, 0), 'self', 'retransmits')
                       and _is_range(arg_desc(F, x, 1), lambda s: s == E, lambda e: isR(e, 'end'))}
                clamped = _is_call(E, 'Ord::min', 'cmp::min') and any(isR(x, 'end') for x in E[3])
                ex = set()
                for br in branches(F, pt):
                    for truth in (True, False):
                        rel = relation_on(br.desc, truth)
                        if rel is None:
                            continue
                        op, a, b = rel
                        if (op == 'Eq' and ((a == E and isR(b, 'end')) or (b == E and isR(a, 'end')))) or (op == 'Le' and clamped and isR(a, 'end') and b == E):
                            ex.add((br.bb, br.target(1 if truth else 0)))
                if bb in pt.reachable_from(S, avoid=ins, avoid_edges=ex):
                    ok, why = False, ('the part of the popped range behind the returned end (%s) is not always put back into self.retransmits from that same end '
                                      '(insert(end..range.end) unless end == range.end)' % D.render(E)[:160])
        ctx.check(ok, 'e', 'retransmit_split_conserves_range', pt, c.where(), '(range.start..end) returned, (end..range.end) re-queued unless end == range.end, one `end`',
                  'bytes of a lost range can be dropped from the retransmit queue without being sent: ' + why)


def _leaf_defs(d, body, op, bb, idx, depth=0):
    """definitions that can supply the value of MIR operand `op` at (bb, idx), looking through plain copies/moves of whole
    locals: list of (block of the definition, descriptor of the defined value).  A constant operand is `defined` where it is used."""
    return _leaf_defs_p(d, body, op, bb, idx, (), depth)


def _tuple_proj(proj):
    """proj consists only of positional (tuple) field projections"""
    return all(isinstance(e, list) and e[0] == 'f' and str(e[1]).isdigit() and not e[2] for e in proj)


def _leaf_defs_p(d, body, op, bb, idx, want, depth):
    """_leaf_defs with a pending list `want` of positional field projections still to be applied to the value: `(a, b).1` is
    followed into the operand `b` AT the statement that builds the tuple (`let (flag, room) = if c { (true, r - 8) } else
    { (false, r) }` keeps one definition block per alternative instead of an anonymous phi of the components)."""
    if op[0] not in ('c', 'm'):
        return [(bb, d._apply_proj(d.operand(op, bb, idx), [list(e) for e in want]))]
    local, proj = op[1]
    fallback = [(bb, d._apply_proj(d.place(op[1], bb, idx), [list(e) for e in want]))]
    if depth > 12 or (proj and not _tuple_proj(proj)):
        return fallback
    want = tuple(tuple(e) for e in proj) + tuple(want)
    defs = d.reaching_defs(local, bb, idx)
    if want and (not defs or any(df[0] not in ('stmt', 'call') for df in defs)):
        # partial writes / parameters / yields under a projection: no single defining statement
        return fallback
    out = []
    for df in defs:
        if df[0] == 'stmt' and df[3][0] == 'use':
            out.extend(_leaf_defs_p(d, body, df[3][1], df[1], df[2], want, depth + 1))
        elif df[0] == 'stmt' and want and df[3][0] == 'agg' and df[3][1][0] == 'tuple' and int(want[0][1]) < len(df[3][2]):
            out.extend(_leaf_defs_p(d, body, df[3][2][int(want[0][1])], df[1], df[2], want[1:], depth + 1))
        elif df[0] == 'stmt':
            out.append((df[1], d._apply_proj(d.rvalue(df[3], df[1], df[2], 0), [list(e) for e in want])))
        elif df[0] == 'call':
            out.append((df[1], d._apply_proj(d.call_desc(df[2], 0), [list(e) for e in want])))
        else:
            out.append((bb, ('local', local, body.locals[local][1])))
    return out


def _int_const(x):
    return isinstance(x, tuple) and len(x) > 2 and x[0] == 'const' and x[1] == 'int'


def _minus_const(m):
    """`x - <integer constant>` (operator or *_sub method) -> x, else None"""
    if m[0] == 'bin' and m[1] == 'Sub' and _int_const(m[3]):
        return m[2]
    if m[0] == 'call' and _meth(m[1]) in ('saturating_sub', 'wrapping_sub') and len(m[3]) == 2 and _int_const(m[3][1]):
        return m[3][0]
    return None


def _sum_with(x, one):
    """x is `a + one` / `a.saturating_add(one)` (either operand order) -> a, else None"""
    if x[0] == 'bin' and x[1] == 'Add':
        ops = (x[2], x[3])
    elif x[0] == 'call' and _meth(x[1]) in ('saturating_add', 'wrapping_add') and len(x[3]) == 2:
        ops = x[3]
    else:
        return None
    for i in (0, 1):
        if _nobb(ops[i]) == _nobb(one):
            return ops[1 - i]
    return None


def rule_e_length(ctx):
    """SendBuffer::poll_transmit returns (start..end, needs_length).  A STREAM frame written without a length field extends to
    the end of the packet, so whatever follows it in the datagram (PADDING of a GSO segment / pad_to_mtu) is parsed as stream
    data.  Obligation, for every returned tuple: with end = min(avail_end, start + room'),
      (1) the flag can be false only on paths that crossed an edge on which `room <= avail_end - start` holds, `room` being the
          unshifted room (the room parameter less non-literal reductions such as the offset varint);
      (2) room' IS that compared room, or the compared room less a constant (the reserved length field), and
      (3) such a constant reservation is not executed on the `room <= avail` edge,
    so that a frame without length covers exactly `room` bytes.  Always encoding the length is safe and accepted."""
    F = ctx.facts
    pt = ctx.pfn('SendBuffer::poll_transmit')
    d = describer(F, pt)
    live = pt.live_blocks()
    outs = [(df[1], df[2], df[3]) for df in pt.defs_of(0) if df[0] == 'stmt' and df[1] in live]
    ctx.floor('e', 'length_flag_sites', len(outs), 2)
    brs = branches(F, pt)
    assigns = [(i, d.rvalue(rv, i, j, 0)) for i, j, pl, rv, line in pt.assigns() if i in live and rv[0] == 'bin']
    assigns += [(c.bb, d.call_desc(c, 0)) for c in pt.calls() if c.bb in live and c.f and _meth(short(c.f)) in ('saturating_sub', 'wrapping_sub')]
    for rb, idx, rv in outs:
        v = d.rvalue(rv, rb, idx, 0)
        ok, why = True, ''
        if not (rv[0] == 'agg' and len(rv[2]) == 2 and v[0] == 'agg' and v[1] == 'tuple' and len(v[3]) == 2 and _is_range(v[3][0], lambda s: True, lambda e: True)):
            ctx.bad('e', 'length_omitted_only_when_frame_fills_room', pt, pt.where(), 'the returned value is not a (start..end, flag) tuple built in place: %s' % D.render(v)[:200])
            continue
        St, En = v[3][0][3]
        # end = min(avail_end, start + room')   (receiver / argument in either order)
        avail_end = room2 = None
        if _is_call(En, 'Ord::min', 'cmp::min') and len(En[3]) == 2:
            for i in (0, 1):
                r2 = _sum_with(En[3][i], St)
                if r2 is not None:
                    avail_end, room2 = En[3][1 - i], r2
        if room2 is None:
            ctx.bad('e', 'length_omitted_only_when_frame_fills_room', pt, pt.where(), 'the returned end is not min(available end, start + room): %s' % D.render(En)[:240])
            continue
        avail = _nobb(('bin', 'Sub', avail_end, St))
        # edges on which `room <= avail_end - start` holds, room carrying the room parameter and no literal shift
        good, rooms = set(), []
        for br in brs:
            for truth in (True, False):
                rel = relation_on(br.desc, truth)
                if rel is None or rel[0] not in ('Le', 'Lt') or _nobb(rel[2]) != avail:
                    continue
                if D.const_offsets(rel[1]) or not any(x[0] == 'param' and x[1] != 1 for x in D.walk(rel[1])):
                    why = 'the branch at %s compares the available bytes with %s, which is not the unshifted room' % (br.where(), D.render(rel[1])[:160])
                    continue
                good.add((br.bb, br.target(1 if truth else 0)))
                rooms.append(rel[1])
        accepted = {_nobb(x) for r in rooms for x in [r] + flat(r)}

        def fills(val):
            rel = relation_on(val, False)
            return rel is not None and rel[0] in ('Le', 'Lt') and _nobb(rel[2]) == avail and _nobb(rel[1]) in accepted
        # (1) the flag
        leafs = _leaf_defs(d, pt, rv[2][1], rb, idx)
        for fb, val in leafs:
            if _int_const(val) and str(val[2]) == '1':
                continue
            if _int_const(val) and str(val[2]) == '0':
                others = {b for b, x in leafs if b != fb}
                if fb in pt.reachable_from(0, avoid_edges=good) and rb in pt.reachable_from(fb, avoid=others, avoid_edges=good):
                    ok = False
                    why = ('the flag can be false on a path that never established room <= available bytes (available = %s)%s'
                           % (D.render(avail)[:120], ('; ' + why) if why else ''))
            elif not (good and fills(val)):
                ok, why = False, 'the flag value %s is not `available bytes < room` for the room the range is clamped to' % D.render(val)[:200]
        # (2) + (3) the room used for the clamp is the compared one; constant reservations only where the length is encoded
        if ok:
            for m in flat(room2):
                if _nobb(m) in accepted:
                    continue
                x = _minus_const(m)
                if x is None or _nobb(x) not in accepted:
                    ok, why = False, 'the range is clamped to %s, which is not the room that was compared with the available bytes' % D.render(m)[:200]
                    break
                res = {i for i, a in assigns if _nobb(a) == _nobb(m)}
                for hb, tgt in good:
                    after = pt.reachable_from(tgt)
                    if any(r in after and rb in pt.reachable_from(r) for r in res):
                        ok, why = False, 'the room is reduced by a constant (%s) also on the path that omits the length field: the frame ends short of the room' % D.render(m)[:160]
        ctx.check(ok, 'e', 'length_omitted_only_when_frame_fills_room', pt, pt.where(), 'range %s..: flag false only over room <= available, end = min(avail_end, start + that room)' % D.render(St)[:80],
                  'a STREAM frame can be emitted without a length field although it does not reach the end of the room (trailing padding would be read as stream data): ' + why)


def rule_f(ctx):
    who_may_call(ctx, 'f', 'assembler_insert_callers', ['Assembler::insert'], ['Recv::ingest', 'Connection::read_crypto'], floor=2)
    who_may_call(ctx, 'f', 'ingest_callers', ['Recv::ingest'], ['StreamsState::received'], floor=1)
    who_may_call(ctx, 'f', 'received_callers', ['StreamsState::received'], ['Connection::process_payload'], floor=1)
    who_may_call(ctx, 'f', 'assembler_read_callers', ['Assembler::read'], ['Chunks::next', 'Connection::read_crypto'], floor=2)
    F = ctx.facts
    ing = ctx.pfn('Recv::ingest')
    for c in ing.calls_to('Assembler::insert'):
        off = arg_desc(F, c, 1)
        dat = arg_desc(F, c, 2)
        ctx.check(D.has_param(off, name='frame') and D.has_field(off, 'offset') and off[0] == 'field' and D.has_field(dat, 'data') and dat[0] == 'field', 'f', 'ingest_inserts_frame_at_its_offset', ing, c.where(),
                  'assembler.insert(frame.offset, frame.data, ..)', 'Assembler::insert is not given the frames own offset/data: %s / %s' % (D.render(off), D.render(dat)))


def rule_g(ctx):
    F = ctx.facts
    nx = ctx.pfn('Chunks::next')
    fin_stores = [c for c in constructions(F, 'recv::ChunksState', 'Finished', crate='quinn_proto') if F.root_of(c.body).id == nx.id]
    ctx.floor('g', 'finished_transition_sites', len(fin_stores), 1)
    e1 = guard_edges(ctx, nx, lambda o, a, b: o == 'Eq' and ((D.has_field(a, 'size') or 'size' in D.render(a)) and D.has_field(b, 'end') or (D.has_field(b, 'size') or 'size' in D.render(b)) and D.has_field(a, 'end')))
    e2 = guard_edges(ctx, nx, lambda o, a, b: o == 'Eq' and ((D.has_call(a, 'Assembler::bytes_read') and D.has_field(b, 'end')) or (D.has_call(b, 'Assembler::bytes_read') and D.has_field(a, 'end'))))
    # `size == Some(rs.end)` is an Option comparison (PartialEq call); accept either form
    if not e1:
        e1 = bool_edges(ctx, nx, lambda d: d[0] == 'bin' and d[1] == 'Eq' and D.has_field(d, 'end') and 'size' in D.render(d))
        e1 = [(br, t, tg) for br, t, tg in e1 if t]
    ok = bool(e1) and bool(e2)
    if ok:
        for c in fin_stores:
            for br, t, tgt in e1 + e2:
                if not edge_dominates(nx, br.bb, tgt, c.bb):
                    ok = False
    ctx.check(ok, 'g', 'eof_requires_known_size_and_all_read', nx, nx.where(), 'Finished only on size == Some(end) && bytes_read == end',
              'end-of-stream can be reported without both `size == Some(end)` and `bytes_read == end` holding')
    # reset reports the stored code
    rs = [c for c in constructions(F, 'ReadError', 'Reset', crate='quinn_proto') if F.root_of(c.body).id == nx.id]
    d = describer(F, nx)
    okr = bool(rs) and all(D.has_field(d.operand(c.ops[0], c.bb, c.idx), 'error_code') or 'error_code' in D.render(d.operand(c.ops[0], c.bb, c.idx)) or d.operand(c.ops[0], c.bb, c.idx)[0] == 'field' for c in rs)
    ctx.check(okr, 'g', 'reset_reports_senders_code', nx, nx.where(), 'ReadError::Reset(error_code from RecvState/ChunksState)', 'reset is reported with something other than the received error code')
    rst = ctx.pfn('Recv::reset')
    cons = [c for c in constructions(F, 'recv::RecvState', 'ResetRecvd', crate='quinn_proto') if F.root_of(c.body).id == rst.id]
    d2 = describer(F, rst)
    okc = bool(cons) and all(D.has_param(d2.operand(c.field_op('error_code'), c.bb, c.idx), name='error_code') for c in cons)
    ctx.check(okc, 'g', 'reset_stores_received_code', rst, rst.where(), 'ResetRecvd{error_code: <param>}', 'Recv::reset stores something other than the received error code')


def rule_i(ctx):
    F = ctx.facts
    eo = ctx.pfn('Assembler::ensure_ordering')
    ins = [c for c in eo.calls() if c.is_('RangeSet::insert', 'BTreeRangeSet::insert', 'ArrayRangeSet::insert')]
    ok = any(D.has_field(arg_desc(F, c, 1), 'bytes_read') and D.has_const(arg_desc(F, c, 1), 0) for c in ins)
    ctx.check(ok, 'i', 'unordered_switch_remembers_consumed_prefix', eo, eo.where(), 'recvd.insert(0..bytes_read)',
              'switching to unordered reads no longer records the already-consumed prefix 0..bytes_read as received (late duplicates would be delivered again)')
    ctx.check(len(ins) >= 2, 'i', 'unordered_switch_remembers_buffered_chunks', eo, eo.where(), '%d insert sites' % len(ins), 'buffered chunks are not recorded as received on the ordered->unordered switch')
    # async ReadToEnd starts with start = u64::MAX (unset) so the first chunk offset defines the start
    rte = ctx.qfn('RecvStream::read_to_end')
    cons = [c for c in constructions(F, 'ReadToEnd', 'ReadToEnd', crate='quinn')]
    okk = False
    for c in cons:
        d = describer(F, c.body)
        v = d.operand(c.field_op('start'), c.bb, c.idx)
        okk = okk or (v[0] == 'const' and (str(v[2]) == str(2**64 - 1) or 'MAX' in str(v[3])))
    ctx.check(okk and bool(cons), 'i', 'read_to_end_starts_unset', rte, rte.where(), 'ReadToEnd{start: u64::MAX}', 'ReadToEnd no longer starts from an unset offset: data read before read_to_end would be replaced by zero bytes')


def rule_i_defragment(ctx):
    """Assembler::defragment walks the buffered chunks in offset order and trims every chunk against the running end
    `chunk.offset + chunk.bytes.len()` of the chunk before it; unordered reads then deliver the chunks as they are ("overlap is
    resolved by try_mark_defragment").  The running end stays monotone only if Buffer::try_mark_defragment(at) leaves
    `self.offset >= at` on EVERY path, also when the chunk is emptied: otherwise the end falls back and the next chunk keeps bytes
    that an earlier chunk already covers (delivered twice).  Obligation: every store to Buffer.offset in that function has a
    value that is >= `at` by construction and never below the old offset, and a return is reachable without such a store only
    over an edge on which `at <= self.offset` is established."""
    F = ctx.facts
    tm = ctx.pfn('Buffer::try_mark_defragment')
    who_may_call(ctx, 'i', 'try_mark_defragment_callers', ['Buffer::try_mark_defragment'], ['Assembler::defragment'], floor=1)
    at = lambda x: x[0] == 'param' and x[1] == 2
    cur = lambda x: _is_pfield(x, 'self', 'offset')
    excess = lambda x: x[0] == 'call' and _meth(x[1]) == 'saturating_sub' and len(x[3]) == 2 and at(x[3][0]) and cur(x[3][1])
    zero = lambda x: _int_const(x) and str(x[2]) == '0'

    def raises(v):
        if at(v):
            return True                                     # self.offset = at (only ever under at > self.offset, or >= at anyway)
        if _is_call(v, 'Ord::max', 'cmp::max') and len(v[3]) == 2:
            return (at(v[3][0]) and cur(v[3][1])) or (at(v[3][1]) and cur(v[3][0]))
        if v[0] == 'bin' and v[1] == 'Add':                 # self.offset += at.saturating_sub(self.offset)
            return (cur(v[2]) and excess(v[3])) or (cur(v[3]) and excess(v[2]))
        return False
    stores = store_values(ctx, 'Buffer', 'offset', in_fn=tm)
    ok, why = tm.argc == 2, '' if tm.argc == 2 else 'unexpected signature'
    done = set()
    for w, v in stores:
        if raises(v):
            done.add(w.bb)
        else:
            ok, why = False, 'the store at %s writes %s, which is not max(self.offset, <running end>)' % (w.where(), D.render(v)[:160])
    if ok and not done:
        ok, why = False, 'no store to Buffer.offset left'
    if ok:
        ex = set()
        for br in branches(F, tm):
            for truth in (True, False):
                rel = relation_on(br.desc, truth)
                if rel is None:
                    continue
                op, a, b = rel
                if (op in ('Le', 'Lt') and at(a) and cur(b)) or (op == 'Eq' and ((at(a) and cur(b)) or (at(b) and cur(a)))) \
                        or (op == 'Eq' and ((excess(a) and zero(b)) or (excess(b) and zero(a)))) or (op == 'Le' and excess(a) and zero(b)):
                    ex.add((br.bb, br.target(1 if truth else 0)))
        reach = tm.reachable_from(0, avoid=done, avoid_edges=ex)
        bad = [r for r in tm.return_blocks() if r in reach]
        if bad:
            ok, why = False, 'a return is reachable without advancing self.offset to the running end: ' + fmt_path(tm, path_avoiding(tm, [0], bad, done) or [])
    ctx.check(ok, 'i', 'defragment_chunk_offset_reaches_running_end', tm, tm.where(), 'self.offset = max(self.offset, at) on every path (%d store(s))' % len(stores),
              'after try_mark_defragment(at) a chunk can keep an offset below the running end: the next chunk is trimmed against a position that fell back and '
              'bytes already covered by an earlier chunk stay buffered (unordered reads deliver them twice): ' + why)


def run(ctx):
    rule_a(ctx)
    rule_b(ctx)
    rule_c(ctx)
    rule_d(ctx)
    rule_e(ctx)
    rule_f(ctx)
    rule_g(ctx)
    rule_i(ctx)
    rule_i_defragment(ctx)
    ctx.info('h', 'STREAM frame bytes/ranges provenance is rule C05.f (shared)')
    # obligations shared with a sibling property (evaluated by the owning module, reported here under letter x)
    from engine.rulelib import share as _share
    _share(ctx, 'C02', 'rule_j', 'x', '0-RTT stream data is re-queued after a Retry: the queue test is sampled before the rewind (bytes sent in 0-RTT are otherwise never delivered)')

