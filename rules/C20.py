"""C20 — the protocol core is deterministic and driven only by its inputs (structural part)."""
from engine.rulelib import *
from engine import desc as D

EXPLANATION = ("Static rules over quinn-proto MIR: (a) NO-REACH: from every externally reachable method of Connection, Endpoint, Streams, SendStream, RecvStream, "
               "Datagrams and Chunks no call-graph path (closures included, pluggable component traits not crossed) reaches a clock or entropy source "
               "(Instant::now, SystemTime::now, elapsed, rand::rng / ThreadRng / SysRng / OsRng / getrandom); the single named exception is Endpoint::new seeding from "
               "SysRng when no seed is configured; every random draw in the core takes its generator from a `rng` field/parameter seeded from the endpoint; (b) inventory of "
               "clock/entropy uses behind component boundaries (BBR's thread-RNG seeding is a known finding); (c) timer servicing: handle_timeout acts on a timer only past "
               "is_expired and stops it before the arm runs; poll_timeout is the minimum over the table; (d) a drained connection is silent: poll_transmit returns None under "
               "Drained before building anything, every site that makes the connection Drained also leaves no Close timer armed, and packets are ignored; (e) no iteration "
               "over a RandomState-hashed map/set in the core; (f) instants stored or armed derive from `now` inputs (or stored instants) and only through add/sub/compare. "
               "Equality of traces between runs is NOT decided.")
RULE = "rule instances = (root, leaf) reachability queries, call sites, branches; non-trivial = bound to a real function / site"

LEAVES = ['std::time::Instant::now', 'Instant::now', 'std::time::SystemTime::now', 'SystemTime::now', 'Instant::elapsed', 'SystemTime::elapsed', 'rand::rng', 'rand::rngs::thread::rng',
          'ThreadRng::default', 'SeedableRng::try_from_rng', 'SeedableRng::from_os_rng', 'SeedableRng::from_rng', 'getrandom::fill', 'getrandom::getrandom', 'OsRng', 'SysRng',
          'web_time::Instant::now', 'web_time::SystemTime::now']
# pluggable component traits: calls through them are inputs of the state machine, not part of it
BOUNDARY_TRAITS = ('crypto::Session', 'crypto::PacketKey', 'crypto::HeaderKey', 'crypto::HmacKey', 'crypto::HandshakeTokenKey', 'crypto::AeadKey', 'crypto::ServerConfig', 'crypto::ClientConfig',
                   'congestion::Controller', 'congestion::ControllerFactory', 'cid_generator::ConnectionIdGenerator', 'token::TokenLog', 'token::TokenStore', 'config::TimeSource',
                   'TimeSource', 'qlog')
ROOT_TYPES = ('connection::Connection', 'endpoint::Endpoint', 'streams::Streams', 'streams::SendStream', 'streams::RecvStream', 'datagrams::Datagrams', 'recv::Chunks')
EXCEPTIONS = {('Endpoint::new', 'SeedableRng::try_from_rng'): 'no rng_seed configured: the endpoint seeds itself from the OS (the only entropy input)'}


def is_boundary_call(c):
    if c.k in ('virtual',):
        return True
    tr = c.tr or ''
    return any(t in tr for t in BOUNDARY_TRAITS)


def roots(F):
    out = []
    for b in F.code_bodies('quinn_proto'):
        if b.kind == 'fn' and b.reach and any(b.self_ty.split('<')[0].endswith(t) for t in ROOT_TYPES) and not b.trait:
            out.append(b)
    return out


def rule_a(ctx):
    F = ctx.facts
    rs = roots(F)
    ctx.floor('a', 'api_roots', len(rs), 60)
    # BFS once from all roots, remembering predecessors
    prev = {}
    stack = []
    for r in rs:
        prev[r.id] = None
        stack.append(r)
    leaf_hits = []
    qlog = 0
    while stack:
        b = stack.pop()
        for x in F.family(b) if b.kind == 'fn' else [b]:
            live = x.live_blocks()
            for c in x.calls():
                if c.bb not in live or is_noise(c):
                    continue
                if c.is_(*LEAVES) or any(l in canon(c.f) for l in ('::OsRng', '::SysRng', 'ThreadRng')):
                    leaf_hits.append((b, c))
                    continue
                if is_boundary_call(c):
                    continue
                if c.k in ('item', 'closurecall') and c.f in F.bodies:
                    t = F.bodies[c.f]
                    if t.crate != 'quinn_proto':
                        continue
                    if 'qlog' in t.id:
                        continue
                    tr = F.root_of(t)
                    if tr.id not in prev:
                        prev[tr.id] = b.id
                        stack.append(tr)
    ctx.ok('a', 'reachable_core_functions', 'call graph', '', '%d functions reachable from %d API roots without crossing a component boundary' % (len(prev), len(rs)))
    for b, c in leaf_hits:
        key = (b.short, short(c.f))
        if key in EXCEPTIONS:
            ctx.ok('a', 'entropy_exception', b, c.where(), '%s -> %s: %s' % (b.short, short(c.f), EXCEPTIONS[key]))
            continue
        path = []
        cur = b.id
        while cur is not None:
            path.append(short(cur))
            cur = prev.get(cur)
        ctx.bad('a', 'clock_or_entropy_reachable', b, c.where(), 'the protocol core reaches %s: %s -> %s (replay / time-translation no longer determined by the inputs)' % (short(c.f), ' <- '.join(path[:6]), short(c.f)), site_class=short(c.f))
    ctx.check(len([1 for b, c in leaf_hits if (b.short, short(c.f)) in EXCEPTIONS]) == 1, 'a', 'only_the_named_exception', 'Endpoint::new', '', 'one exception edge', 'the named entropy exception (Endpoint::new -> SysRng) disappeared or multiplied')
    # random draws use the seeded generator
    n = 0
    for fid in prev:
        b = F.bodies.get(fid)
        if b is None:
            continue
        for x in F.family(b):
            for c in x.calls():
                if c.bb in x.live_blocks() and (c.tr or '').split('::')[-1] in ('Rng', 'RngExt', 'RngCore', 'TryRng') and short(c.f).split('::')[-1] in ('random', 'random_range', 'random_ratio', 'random_bool', 'fill_bytes', 'fill', 'next_u32', 'next_u64', 'shuffle'):
                    n += 1
                    a = arg_desc(F, c, 0)
                    ok = D.has_field(a, 'rng') or D.has_param(a, name='rng') or D.has_upvar(a, 'rng') or 'rng' in D.render(a)
                    ctx.check(ok, 'a', 'random_draw_from_seeded_rng', b, c.where(), D.render(a)[:60], 'a random draw in the core does not use the seeded connection/endpoint rng: ' + D.render(a)[:100])
    ctx.floor('a', 'random_draw_sites', n, 8)
    # seeding: Connection.rng = StdRng::from_seed(rng_seed) ; Endpoint derives the seed from its own rng
    cn = ctx.pfn('Connection::new')
    fs = cn.calls_to('SeedableRng::from_seed')
    ctx.check(bool(fs) and all(D.has_param(arg_desc(F, c, 0), name='rng_seed') for c in fs), 'a', 'connection_rng_seeded_from_endpoint', cn, cn.where(), 'StdRng::from_seed(rng_seed)', 'the connection rng is not seeded from the seed handed in by the endpoint')
    ac = ctx.pfn('Endpoint::add_connection')
    fb = [c for c in ac.calls() if short(c.f).endswith('fill_bytes') and D.has_field(arg_desc(F, c, 0), 'rng')]
    ctx.check(bool(fb), 'a', 'connection_seed_drawn_from_endpoint_rng', ac, ac.where(), 'self.rng.fill_bytes(&mut rng_seed)', 'per-connection seeds are not drawn from the endpoint rng')
    en = ctx.pfn('Endpoint::new')
    ok = bool(en.calls_to('SeedableRng::from_seed')) and bool([br for br in branches(F, en) if D.has_field(br.desc, 'rng_seed')])
    ctx.check(ok, 'a', 'endpoint_uses_configured_seed', en, en.where(), 'Some(seed) -> StdRng::from_seed(seed)', 'the configured rng_seed is no longer used')


def rule_b(ctx):
    F = ctx.facts
    inv = []
    for c in F.all_calls('quinn_proto'):
        if c.is_(*LEAVES) and not is_noise(c):
            r = F.root_of(c.body)
            inv.append((r, c))
    for r, c in inv:
        ctx.info('b', '%s -> %s at %s' % (r.short, short(c.f), c.where()))
    bbr = [x for x in inv if x[0].short == 'Bbr::new']
    for r, c in bbr:
        ctx.bad('b', 'component_entropy', r, c.where(), 'Bbr::new seeds its gain-cycle generator from the thread RNG: with the BBR controller configured, replaying the same inputs yields different pacing/window traces')
    allowed = {'<EndpointConfig as Default>::default', 'ServerConfig::with_crypto', '<StdSystemTime as TimeSource>::now', 'Endpoint::new', 'Bbr::new',
               '<RandomConnectionIdGenerator as ConnectionIdGenerator>::generate_cid', 'HashedConnectionIdGenerator::new', '<HashedConnectionIdGenerator as ConnectionIdGenerator>::generate_cid',
               # feature `qlog` only: configuration default built by the application; start_time offsets the timestamps of the diagnostic log, not protocol state
               '<QlogConfig as Default>::default'}
    for r, c in inv:
        ctx.check(r.short in allowed, 'b', 'entropy_or_clock_inventory', r, c.where(), 'behind a component boundary / configuration default', 'new clock/entropy use in quinn-proto: %s -> %s' % (r.short, short(c.f)))


def rule_c(ctx):
    F = ctx.facts
    ht = ctx.pfn('Connection::handle_timeout')
    ie = ht.calls_to('TimerTable::is_expired')
    st = [c for c in ht.calls_to('TimerTable::stop')]
    ctx.check(len(ie) == 1 and bool(st), 'c', 'timeout_shape', ht, ht.where(), 'is_expired + stop', 'handle_timeout lost its is_expired / stop structure')
    for e in ie:
        for br in branches(F, ht):
            inner, neg = peel_not(br.desc)
            if inner[0] == 'call' and is_site(inner, e):
                t_no = br.target(1 if neg else 0)
                t_yes = br.target(0 if neg else 1)
                arms = [c for c in ht.calls() if c.is_('Connection::kill', 'Connection::on_loss_detection_timeout', 'Connection::ping', 'CidState::on_cid_timeout', 'PendingAcks::on_max_ack_delay_timeout')]
                arms_b = [c.bb for c in arms] + [c.bb for c in constructions(F, 'connection::State', 'Drained', crate='quinn_proto') if c.body.id == ht.id]
                # from the not-expired edge, no arm is reachable before the next is_expired evaluation
                bad = [a for a in arms_b if a in ht.reachable_from(t_no, avoid=[e.bb])]
                ctx.check(not bad and len(arms_b) >= 5, 'c', 'arms_only_for_expired_timers', ht, e.where(), '%d arm sites unreachable from the not-expired edge' % len(arms_b), 'a timer arm can run although the timer has not expired')
                # stop(timer) dominates every arm
                stopped = all(any(ht.dominates(s.bb, a) for s in st) for a in arms_b)
                ctx.check(stopped, 'c', 'expired_timer_stopped_before_arm', ht, e.where(), 'timers.stop(timer) dominates every arm', 'an expired timer is not stopped before its arm runs (repeated handle_timeout at one instant would re-run it)')
    ie_b = ctx.pfn('TimerTable::is_expired')
    ok = any(D.has_call(x, 'Option::is_some_and') for _, x in ret_descs(F, ie_b)) or bool([b for b in F.closures_of(ie_b)])
    cl = F.closures_of(ie_b)
    okr = any(y[0] == 'bin' and y[1] == 'Le' for b in cl for _, x in ret_descs(F, b) for y in flat(x))
    ctx.check(ok and okr, 'c', 'expiry_relation', ie_b, ie_b.where(), 'deadline <= after', 'is_expired relation changed')
    pt = ctx.pfn('Connection::poll_timeout')
    ctx.check(bool(pt.calls_to('TimerTable::next_timeout')), 'c', 'poll_timeout_is_next_timeout', pt, pt.where(), 'timers.next_timeout()', 'poll_timeout no longer reports the timer table minimum')


def rule_d(ctx):
    F = ctx.facts
    pt = ctx.pfn('Connection::poll_transmit')
    # the first dispatch on self.state: Drained edge returns None without reaching any builder
    pb = [c.bb for c in pt.calls_to('PacketBuilder::new')]
    st = F.adt('quinn_proto::connection::State')
    didx = [i for i, v in enumerate(st['variants']) if v['name'] == 'Drained'][0]
    ok = False
    for br in branches(F, pt):
        if br.desc[0] == 'discr' and D.has_field(br.desc[1], 'state') and br.desc[1][0] == 'field' and all(pt.dominates(br.bb, p) for p in pb):
            t = br.target(didx)
            reach = pt.reachable_from(t, avoid=[br.bb])
            ok = all(p not in reach for p in pb) and all(any(y[0] == 'agg' and y[2].endswith('None') for y in flat(describer(F, pt).place([0, []], r, term_idx(pt, r)))) for r in pt.return_blocks() if r in reach)
            break
    ctx.check(ok, 'd', 'drained_connection_sends_nothing', pt, pt.where(), 'State::Drained -> return None before any packet is built', 'poll_transmit can build a packet for a drained connection')
    pdp = ctx.pfn('Connection::process_decrypted_packet')
    ok = False
    for br in branches(F, pdp):
        if br.desc[0] == 'discr' and D.has_field(br.desc[1], 'state') and br.desc[1][0] == 'field':
            t = br.target(didx)
            calls = [c for c in pdp.calls() if c.bb in pdp.reachable_from(t, avoid=[br.bb]) and not is_noise(c) and c.is_('Connection::process_payload', 'Connection::process_early_payload', 'Iter::new')]
            ok = not calls
            break
    ctx.check(ok, 'd', 'drained_connection_ignores_packets', pdp, pdp.where(), 'Draining | Drained => return Ok(())', 'a drained connection still processes packets')
    # no Close timer survives the transition to Drained (shared shape with C08.a)
    from rules import C08
    hp = ctx.pfn('Connection::handle_packet')
    ev = [c for c in constructions(F, 'EndpointEventInner', 'Drained', crate='quinn_proto') if F.root_of(c.body).id == hp.id]
    for e in ev:
        stp = [c for c in hp.calls_to('TimerTable::stop') if C08.timer_const(arg_desc(F, c, 1), 'Close')]
        okc = bool(stp) and must_follow(F, hp, e.bb, ['TimerTable::stop'], depth=0) is None
        ctx.check(okc, 'd', 'no_timer_left_on_drained_connection', hp, e.where(), 'timers.stop(Timer::Close) follows the transition to Drained',
                  'a connection drained by a packet (stateless reset while closing) keeps its Close timer: poll_timeout still reports a deadline and servicing it emits a second Drained')
    k = ctx.pfn('Connection::kill')
    ctx.check(must_call(F, k, ['Connection::close_common'], 0), 'd', 'kill_stops_all_timers', k, k.where(), 'close_common()', 'kill leaves timers armed on a drained connection')


def rule_e(ctx):
    F = ctx.facts
    n = 0
    bad = []
    for c in F.all_calls('quinn_proto'):
        sh = short(c.f)
        if sh.split('::')[0] in ('HashMap', 'HashSet') and sh.split('::')[-1] in ('iter', 'iter_mut', 'keys', 'values', 'values_mut', 'drain', 'into_iter', 'retain', 'into_keys', 'into_values', 'extract_if'):
            n += 1
            recv = c.body.local_ty(c.args[0][1][0]) if c.args and c.args[0][0] in ('c', 'm') else ''
            det = 'FxBuildHasher' in recv or 'BuildHasherDefault' in recv
            r = F.root_of(c.body)
            ctx.check(det, 'e', 'no_random_state_iteration', r, c.where(), '%s over %s' % (sh, recv[:70]), 'iteration over a RandomState-hashed collection in the protocol core (order differs between runs): %s over %s' % (sh, recv[:100]))
    ctx.ok('e', 'hash_iteration_sites', 'quinn_proto', '', '%d hash-collection iteration sites, all with a deterministic hasher' % n)


def rule_f(ctx):
    F = ctx.facts
    # every TimerTable::set deadline derives from a `now` parameter / stored instant, never from a clock call
    n = 0
    for c in F.callers_of('TimerTable::set', crate='quinn_proto'):
        r = F.root_of(c.body)
        if r.short == 'TimerTable::set':
            continue
        n += 1
        a = arg_desc(F, c, 2)
        ok = not any(x[0] == 'call' and (x[1].endswith('::now') or x[1].endswith('elapsed')) for x in walk(a))
        src = D.has_param(a, name='now') or any(x[0] == 'param' for x in walk(a)) or any(x[0] == 'field' for x in walk(a)) or any(x[0] == 'call' for x in walk(a))
        ctx.check(ok and src, 'f', 'deadlines_derive_from_inputs', r, c.where(), D.render(a)[:90], 'a timer deadline is computed from a clock read: ' + D.render(a)[:140])
    ctx.floor('f', 'timer_set_sites', n, 9)
    # Instant API surface used by the core
    used = set()
    for c in F.all_calls('quinn_proto'):
        f = canon(c.f)
        if 'time::Instant' in f or f.startswith('std::time::Instant') or 'Instant as' in f:
            used.add(short(c.f))
    allowed_sub = ('add', 'sub', 'add_assign', 'sub_assign', 'checked_add', 'checked_sub', 'saturating_duration_since', 'checked_duration_since', 'duration_since', 'cmp', 'partial_cmp', 'lt', 'le', 'gt', 'ge', 'eq', 'ne', 'max', 'min', 'clone', 'fmt', 'hash', 'now')
    bad = sorted(u for u in used if u.split('::')[-1] not in allowed_sub)
    ctx.check(not bad, 'f', 'instant_api_surface', 'Instant', '', '%d distinct Instant operations, all translation-invariant' % len(used), 'the core uses Instant operations that are not translation-invariant: %s' % bad)


def run(ctx):
    rule_a(ctx)
    rule_b(ctx)
    rule_c(ctx)
    rule_d(ctx)
    rule_e(ctx)
    rule_f(ctx)
    ctx.assume('component boundaries: crypto::*, congestion::Controller(Factory), ConnectionIdGenerator, TokenLog, TokenStore, TimeSource, qlog sinks are inputs of the state machine')
