"""C20 — the protocol core is deterministic and driven only by its inputs (structural part)."""
from engine.rulelib import *
from engine import desc as D

EXPLANATION = ("Static rules over quinn-proto MIR: (a) NO-REACH: from every externally reachable method of Connection, Endpoint, Streams, SendStream, RecvStream, "
               "Datagrams and Chunks no call-graph path (closures included, pluggable component traits not crossed) reaches a clock or entropy source "
               "(Instant::now, SystemTime::now, elapsed, rand::rng / ThreadRng / SysRng / OsRng / getrandom); the single named exception is Endpoint::new seeding from "
               "SysRng when no seed is configured; every random draw in the core takes its generator from a `rng` field/parameter seeded from the endpoint; (b) inventory of "
               "clock/entropy uses behind component boundaries (BBR's thread-RNG seeding is a known finding); (c) timer servicing: handle_timeout acts on a timer only past "
               "is_expired and stops it before the arm runs; poll_timeout is the minimum over the table; (d) a drained connection is silent: poll_transmit returns None under "
               "Drained before building anything, every site that makes the connection Drained also leaves no Close timer armed, and packets are ignored: handle_packet entered while Draining / Drained reaches no store to or &mut borrow of the "
               "connection (counters excepted; CFG walk pruned by the State variant), and no site arming Timer::PushNewCid can execute while the state is Closed / Draining / Drained; (e) no iteration "
               "over a RandomState-hashed map/set in the core; (f) instants stored or armed derive from `now` inputs (or stored instants) and only through add/sub/compare. "
               "Equality of traces between runs is NOT decided.")
RULE = "rule instances = (root, leaf) reachability queries, call sites, branches; non-trivial = bound to a real function / site"

LEAVES = ['std::time::Instant::now', 'Instant::now', 'std::time::SystemTime::now', 'SystemTime::now', 'Instant::elapsed', 'SystemTime::elapsed', 'rand::rng', 'rand::rngs::thread::rng',
          'ThreadRng::default', 'SeedableRng::try_from_rng', 'SeedableRng::from_os_rng', 'SeedableRng::from_rng', 'getrandom::fill', 'getrandom::getrandom', 'OsRng', 'SysRng',
          'web_time::Instant::now', 'web_time::SystemTime::now']
# pluggable component traits: calls through them are inputs of the state machine, not part of it
BOUNDARY_TRAITS = ('crypto::Session', 'crypto::PacketKey', 'crypto::HeaderKey', 'crypto::HmacKey', 'crypto::HandshakeTokenKey', 'crypto::AeadKey', 'crypto::ServerConfig', 'crypto::ClientConfig',
                   'congestion::Controller', 'congestion::ControllerFactory', 'cid_generator::ConnectionIdGenerator', 'token::TokenLog', 'token::TokenStore', 'config::TimeSource',
                   'TimeSource', 'qlog')
ROOT_TYPES = ('connection::Connection', 'endpoint::Endpoint', 'streams::Streams', 'streams::SendStream', 'streams::RecvStream', 'datagrams::Datagrams', 'recv::Chunks')
EXCEPTIONS = {('Endpoint::new', 'SeedableRng::try_from_rng'): 'no rng_seed configured: the endpoint seeds itself from the OS (the only entropy input)'}


def is_boundary_call(c):
    if c.k in ('virtual',):
        return True
    tr = c.tr or ''
    return any(t in tr for t in BOUNDARY_TRAITS)


def roots(F):
    out = []
    for b in F.code_bodies('quinn_proto'):
        if b.kind == 'fn' and b.reach and any(b.self_ty.split('<')[0].endswith(t) for t in ROOT_TYPES) and not b.trait:
            out.append(b)
    return out


# --------------------------------------------------------------------------
# structural helpers (exact shapes; see mutants/C20/REPORT.md "Rule fixes")
# --------------------------------------------------------------------------

DRAW_TRAITS = ('Rng', 'RngExt', 'RngCore', 'TryRng', 'TryRngCore')


def _is_call(d, *names):
    """d IS a call node (not merely contains one) whose callee is one of names (`Tr::m` form of `<X as Tr>::m` accepted)"""
    return isinstance(d, tuple) and d[0] == 'call' and any(d[1] == n or D._trait_form(d[1]) == n or path_matches(d[2], n) for n in names)


def _self_field(d, name):
    """d IS `<param>.name` (field of a parameter, e.g. self.rng)"""
    return isinstance(d, tuple) and d[0] == 'field' and d[2] == name and isinstance(d[1], tuple) and d[1][0] == 'param'


def _param_index(body, name):
    for i in range(1, body.argc + 1):
        if body.locals[i][1] == name:
            return i
    return None


VIEW_METHODS = ('index_mut', 'index', 'as_mut', 'as_mut_slice', 'as_slice', 'deref_mut', 'deref', 'borrow_mut', 'as_ref', 'borrow')


def _alias_root(body, operand):
    """the local an operand is a plain copy / move / (re)borrow / unsizing cast of: follows single-definition temporaries
    `_a = move _b`, `_a = &mut _b`, `_a = &mut (*_b)`, `_a = _b as &mut [u8]` back to the first local that is not such a
    temporary.  None for constants."""
    if operand[0] not in ('c', 'm'):
        return None
    pl = operand[1]
    seen = set()
    while True:
        if any(e != '*' for e in pl[1]):
            return None
        l = pl[0]
        if l in seen:
            return l
        seen.add(l)
        defs = body.defs_of(l)
        if len(defs) == 1 and defs[0][0] == 'call' and short(defs[0][2].f).split('::')[-1] in VIEW_METHODS and defs[0][2].args and defs[0][2].args[0][0] in ('c', 'm'):
            pl = defs[0][2].args[0][1]     # `&mut buf[..]`, `buf.as_mut()` ... : a view of the same buffer
            continue
        if len(defs) != 1 or defs[0][0] != 'stmt':
            return l
        rv = defs[0][3]
        nxt = None
        if rv[0] == 'use' and rv[1][0] in ('c', 'm'):
            nxt = rv[1][1]
        elif rv[0] in ('ref', 'ptr'):
            nxt = rv[2]
        elif rv[0] == 'cast' and rv[2][0] in ('c', 'm'):
            nxt = rv[2][1]
        if nxt is None or any(e != '*' for e in nxt[1]):
            return l
        pl = nxt


def _is_draw(c):
    return (c.tr or '').split('::')[-1] in DRAW_TRAITS and short(c.f).split('::')[-1] in ('fill_bytes', 'fill', 'try_fill_bytes', 'try_fill')


def _seed_flows(F, ac, cn):
    """Endpoint::add_connection hands Connection::new, as its `rng_seed` argument, a value drawn from `self.rng`:
    either the result of a draw (`self.rng.random()`), or a buffer local that a dominating `self.rng.fill_bytes(&mut buf)`
    filled and that is not reassigned afterwards.  Returns (ok, detail)."""
    pi = _param_index(cn, 'rng_seed')
    if pi is None:
        return False, 'Connection::new has no parameter rng_seed'
    sites = [c for c in ac.calls() if c.bb in ac.live_blocks() and c.f == cn.id]
    if not sites:
        return False, 'add_connection does not call Connection::new'
    for c in sites:
        if pi - 1 >= len(c.args):
            return False, 'argument missing'
        alts = flat(arg_desc(F, c, pi - 1))
        if all(x[0] == 'call' and x[1].split('::')[-1] in ('random', 'gen') and x[3] and _self_field(x[3][0], 'rng') for x in alts):
            continue
        root = _alias_root(ac, c.args[pi - 1])
        if root is None:
            return False, 'the rng_seed argument is %s' % D.render(arg_desc(F, c, pi - 1))[:80]
        fills = [f for f in ac.calls() if f.bb in ac.live_blocks() and _is_draw(f) and len(f.args) >= 2 and _self_field(arg_desc(F, f, 0), 'rng')
                 and _alias_root(ac, f.args[1]) == root and f.bb != c.bb and ac.dominates(f.bb, c.bb)]
        if not fills:
            return False, 'the buffer passed as rng_seed (%s) is not the one filled from self.rng' % D.render(arg_desc(F, c, pi - 1))[:80]
        # nothing else gets hold of the buffer (a later `buf.fill(0)` / second draw would replace the seed)
        for o in ac.calls():
            if o.bb in ac.live_blocks() and o is not c and o not in fills and not is_noise(o) and short(o.f).split('::')[-1] not in VIEW_METHODS and any(_alias_root(ac, a) == root for a in o.args):
                return False, 'the seed buffer is also handed to %s' % short(o.f)
        # no whole re-definition of the buffer that is not itself before a fill
        for df in ac.defs_of(root):
            bb = df[1] if df[0] != 'arg' else 0
            if df[0] in ('stmt', 'call', 'field', 'callfield', 'sd') and not any(ac.dominates(bb, f.bb) for f in fills):
                return False, 'the seed buffer is overwritten after being filled'
    return True, ''


def _top_args(ty):
    """top-level generic arguments of `path<..>` ; (path, [args])"""
    i = ty.find('<')
    if i < 0 or not ty.endswith('>'):
        return ty, []
    inner = ty[i + 1:-1]
    out, depth, cur = [], 0, ''
    for ch in inner:
        if ch in '<([':
            depth += 1
        elif ch in '>)]':
            depth -= 1
        if ch == ',' and depth == 0:
            out.append(cur.strip())
            cur = ''
        else:
            cur += ch
    if cur.strip():
        out.append(cur.strip())
    return ty[:i], out


DET_HASHERS = ('FxBuildHasher', 'BuildHasherDefault', 'IdentityBuildHasher')


def _hash_coll(ty):
    """(kind, hasher) when ty is (a reference to) std HashMap / HashSet; hasher is the collection's OWN hasher
    (top-level generic argument; defaulted = RandomState), not that of a nested value type.  None otherwise."""
    t = ty.strip()
    while t.startswith('&'):
        t = t[1:].strip()
        if t.startswith("'"):
            t = t.split(' ', 1)[1].strip() if ' ' in t else t
        if t.startswith('mut '):
            t = t[4:].strip()
    path, args = _top_args(t)
    last = path.split('::')[-1]
    if last == 'HashMap':
        return 'HashMap', (args[2] if len(args) >= 3 else 'RandomState')
    if last == 'HashSet':
        return 'HashSet', (args[1] if len(args) >= 2 else 'RandomState')
    return None


def _det_hasher(h):
    path, _ = _top_args(h)
    return path.split('::')[-1] in DET_HASHERS


_CLOCKY = __import__('engine.facts', fromlist=['register_memo']).register_memo({})


def _clock_reachers(F):
    """canonical paths of quinn-proto functions / closures from which a clock or entropy leaf is reachable over resolved
    calls (closures attributed to their parent, component boundaries not crossed) — unbounded depth"""
    k = F.uid
    if k in _CLOCKY:
        return _CLOCKY[k]
    direct = set()
    rev = {}
    canon2root = {}
    for b in F.code_bodies('quinn_proto'):
        r = F.root_of(b)
        canon2root[b.canon] = r.id
        live = b.live_blocks()
        for c in b.calls():
            if c.bb not in live or is_noise(c):
                continue
            if c.is_(*LEAVES) or any(l in canon(c.f) for l in ('::OsRng', '::SysRng', 'ThreadRng')):
                direct.add(r.id)
                continue
            if is_boundary_call(c):
                continue
            if c.k in ('item', 'closurecall') and c.f in F.bodies and F.bodies[c.f].crate == 'quinn_proto':
                rev.setdefault(F.root_of(F.bodies[c.f]).id, set()).add(r.id)
    reach = set(direct)
    stack = list(direct)
    while stack:
        x = stack.pop()
        for y in rev.get(x, ()):
            if y not in reach:
                reach.add(y)
                stack.append(y)
    res = {cn for cn, rid in canon2root.items() if rid in reach}
    _CLOCKY[k] = res
    return res


def _is_values(d):
    """d is Timer::VALUES, possibly behind `.iter()` / `.into_iter()` / `.copied()` / `.cloned()`"""
    while isinstance(d, tuple) and d[0] == 'call' and d[1].split('::')[-1] in ('iter', 'into_iter', 'copied', 'cloned') and d[3]:
        d = d[3][0]
    return isinstance(d, tuple) and d[0] == 'const' and (d[3] == 'Timer::VALUES' or d[3].endswith('::Timer::VALUES'))


def _stop_all_sites(F, body, depth=2):
    """blocks of `body` that stop EVERY timer: the head (`next` call) of a loop over Timer::VALUES in which every iteration
    passes `<..>.timers.stop(<the element>)` and which is only left through the iterator's None edge; or a call of a
    crate-local function all of whose normal paths pass such a block."""
    res = set()
    live = body.live_blocks()
    rets = set(body.return_blocks())
    for nx in body.calls():
        if nx.bb not in live or short(nx.f).split('::')[-1] != 'next' or not nx.args or not _is_values(arg_desc(F, nx, 0)):
            continue
        for br in branches(F, body):
            if br.desc[0] != 'discr' or not is_site(br.desc[1], nx):
                continue
            t_some = br.target(STD_VARIANTS['Option']['Some'])
            stops = set()
            for c in body.calls_to('TimerTable::stop'):
                a0, a1 = arg_desc(F, c, 0), arg_desc(F, c, 1)
                if a0[0] == 'field' and a0[2] == 'timers' and a1[0] == 'field' and a1[2] == '0' and a1[1][0] == 'variant' and a1[1][2] == 'Some' and is_site(a1[1][1], nx):
                    stops.add(c.bb)
            if stops and path_avoiding(body, [t_some], rets | {nx.bb}, stops) is None and path_avoiding(body, [t_some], rets, {nx.bb}) is None:
                res.add(nx.bb)
    if depth > 0:
        for c in body.calls():
            if c.bb in live and c.k == 'item' and c.f in F.bodies and F.bodies[c.f].kind == 'fn' and F.bodies[c.f].crate == 'quinn_proto' and not is_noise(c):
                cb = F.bodies[c.f]
                sub = _stop_all_sites(F, cb, depth - 1)
                if sub and path_avoiding(cb, [0], cb.return_blocks(), sub) is None:
                    res.add(c.bb)
    return res


_ARMERS = __import__('engine.facts', fromlist=['register_memo']).register_memo({})


def _timer_arg_may_be(d, name):
    """the Timer argument descriptor may denote Timer::<name>: every alternative that is not the unit aggregate of ANOTHER
    Timer variant counts (a variable / parameter / loop element is not known to differ)"""
    for x in flat(d):
        if isinstance(x, tuple) and x[0] == 'agg' and '::' in x[2] and x[2].split('::')[-2:-1] == ['Timer'] and not x[2].endswith('Timer::' + name):
            continue
        return True
    return False


def _timer_armers(F, name):
    """ids of the root functions of quinn-proto from which a `TimerTable::set(<may be Timer::name>, ..)` is reachable over
    resolved crate-local calls (closures attributed to their parent) — unbounded depth"""
    k = (F.uid, name)
    if k in _ARMERS:
        return _ARMERS[k]
    direct, rev = set(), {}
    for b in F.code_bodies('quinn_proto'):
        r = F.root_of(b)
        live = b.live_blocks()
        for c in b.calls():
            if c.bb not in live or is_noise(c):
                continue
            if c.is_('TimerTable::set') and len(c.args) >= 2 and _timer_arg_may_be(arg_desc(F, c, 1), name):
                direct.add(r.id)
            elif c.k in ('item', 'closurecall') and c.f in F.bodies and F.bodies[c.f].crate == 'quinn_proto':
                rev.setdefault(F.root_of(F.bodies[c.f]).id, set()).add(r.id)
    reach, stack = set(direct), list(direct)
    while stack:
        x = stack.pop()
        for y in rev.get(x, ()):
            if y not in reach:
                reach.add(y)
                stack.append(y)
    _ARMERS[k] = reach
    return reach


def _timer_left_armed(F, body, e_bb, name):
    """Obligation: on EVERY entry -> e_bb -> return path of `body` the LAST operation on Timer::<name> is
    `<self>.timers.stop(Timer::<name>)` (at least one such stop on the path, and nothing that may arm the timer after the
    last one).  The stop may therefore stand after the site (`push(Drained); stop(Close)`) or before it
    (`stop(Close); push(Drained)`): the two statements are independent and the order is not part of the obligation; what
    is, is that no arming site (TimerTable::set(Timer::<name>) directly or through any crate-local callee, unbounded depth)
    lies between the stop and the return.  Within a block the statements (the site) precede the terminator (a call).
    Returns None when the obligation holds, else a reason."""
    live = body.live_blocks()
    rets = set(body.return_blocks())
    S = set()
    for c in body.calls_to('TimerTable::stop'):
        if c.bb in live and len(c.args) >= 2 and _self_field(arg_desc(F, c, 0), 'timers'):
            alts = flat(arg_desc(F, c, 1))
            if alts and all(isinstance(x, tuple) and x[0] == 'agg' and x[2].endswith('Timer::' + name) for x in alts):
                S.add(c.bb)
    S |= {b for b in _stop_all_sites(F, body, 2) if b in live}
    if not S:
        return 'no timers.stop(Timer::%s) in %s' % (name, body.short)
    armers = _timer_armers(F, name)
    def arms(c, own):
        if c.is_('TimerTable::set') and len(c.args) >= 2 and _timer_arg_may_be(arg_desc(F, c, 1), name):
            return True
        if c.k in ('item', 'closurecall') and c.f in F.bodies and F.bodies[c.f].crate == 'quinn_proto':
            t = F.bodies[c.f]
            if t.kind == 'fn' or F.root_of(t).id != F.root_of(body).id:
                return F.root_of(t).id in armers
            return t.id in own
        return False
    # closures defined in `body` that may arm the timer (fixed point over closures calling closures)
    own = set()
    changed = True
    while changed:
        changed = False
        for x in F.closures_of(F.root_of(body)):
            if x.id not in own and any(c.bb in x.live_blocks() and not is_noise(c) and (arms(c, own) or any(cb.id in own for cb in closure_args(F, c))) for c in x.calls()):
                own.add(x.id)
                changed = True
    A = set()
    for c in body.calls():
        if c.bb not in live or is_noise(c):
            continue
        if arms(c, own) or (own and any(cb.id in own for cb in closure_args(F, c))):
            A.add(c.bb)
            S.discard(c.bb)      # a callee that stops every timer but may also arm this one is not a stop
    if not S:
        return 'no site of %s leaves Timer::%s stopped' % (body.short, name)
    after = [] if e_bb in S else list(body.succ[e_bb])
    tail_free = path_avoiding(body, after, rets, S) if after else None     # site -> return without a stop
    if tail_free is not None and path_avoiding(body, [0], [e_bb], S) is not None:
        return 'a path through the site passes no timers.stop(Timer::%s): ..%s' % (name, fmt_path(body, tail_free))
    past = body.reachable_from(e_bb)
    for a in sorted(A):
        to_ret = path_avoiding(body, list(body.succ[a]), rets, S)
        if to_ret is None:
            continue                                   # a stop always follows this arming site
        if a == e_bb or a in past:
            return 'the timer may be armed again after the site without a later stop: %s' % fmt_path(body, [a] + to_ret)
        if tail_free is not None and path_avoiding(body, list(body.succ[a]), [e_bb], S) is not None:
            return 'the timer may be armed before the site and is not stopped afterwards: %s' % fmt_path(body, [a] + to_ret)
    return None


def _endpoint_seed(F, en):
    """Endpoint::new: on the Some edge of the branch on `config.rng_seed` the generator stored in Endpoint.rng is
    from_seed(<that payload>); the OS-seeded alternative is confined to the None edge."""
    def payload(d):
        return (d[0] == 'field' and d[2] == '0' and d[1][0] == 'variant' and d[1][2] == 'Some' and d[1][1][0] == 'field' and d[1][1][2] == 'rng_seed'
                and D.has_param(d[1][1][1]))
    brs = [br for br in branches(F, en) if br.desc[0] == 'discr' and br.desc[1][0] == 'field' and br.desc[1][2] == 'rng_seed' and D.has_param(br.desc[1][1])]
    if len(brs) != 1:
        return False, 'no single branch on config.rng_seed'
    br = brs[0]
    t_some, t_none = br.target(STD_VARIANTS['Option']['Some']), br.target(STD_VARIANTS['Option']['None'])
    cons = [c for c in constructions(F, 'endpoint::Endpoint', None, crate='quinn_proto') if c.adt.split('<')[0].endswith('endpoint::Endpoint') and F.root_of(c.body).id == en.id]
    if not cons:
        return False, 'Endpoint::new does not construct Endpoint'
    seeded = 0
    for c in cons:
        op = c.field_op('rng')
        if op is None:
            return False, 'no rng field'
        for x in flat(describer(F, c.body).operand(op, c.bb, c.idx)):
            if _is_call(x, 'SeedableRng::from_seed') and len(x[3]) == 1 and payload(x[3][0]):
                if x[4] in en.reachable_from(t_none, avoid=[br.bb]) or x[4] not in en.reachable_from(t_some, avoid=[br.bb]):
                    return False, 'from_seed(seed) is not on the Some edge'
                seeded += 1
            elif D.has_call(x, 'SeedableRng::try_from_rng', 'SeedableRng::from_os_rng', 'SeedableRng::from_rng'):
                sites = [y[4] for y in walk(x) if y[0] == 'call' and len(y) > 4 and y[1].split('::')[-1] in ('try_from_rng', 'from_os_rng', 'from_rng')]
                if any(b in en.reachable_from(t_some, avoid=[br.bb]) for b in sites):
                    return False, 'the OS-seeded generator is reachable although a seed is configured'
            else:
                return False, 'Endpoint.rng may be %s' % D.render(x)[:100]
    if not seeded:
        return False, 'Endpoint.rng is never StdRng::from_seed(<configured seed>)'
    return True, ''


def _expiry_relation(F, ie):
    """TimerTable::is_expired(timer, after) == `self.data[timer]` is Some(d) with d <= after, in one of the forms
    `self.data[..].is_some_and(|d| d <= after)` or `match self.data[..] { Some(d) => d <= after, None => false }`
    (comparison direction and negations normalised).  Both operands are identified: the deadline is the payload of the
    table slot / the closure parameter, the bound is the Instant parameter of is_expired (captured by the closure)."""
    inst = [('param', i, ie.locals[i][1]) for i in range(1, ie.argc + 1) if ie.locals[i][0].split('<')[0].endswith('Instant')]
    if len(inst) != 1:
        return False, 'is_expired does not take exactly one Instant'
    aft = inst[0]

    def slot(d):
        return d[0] == 'index' and _self_field(d[1], 'data')

    def le(d, is_deadline, is_bound):
        rel = relation_on(d, True)
        return rel is not None and rel[0] == 'Le' and is_deadline(rel[1]) and is_bound(rel[2]) and not (D.const_offsets(rel[1]) | D.const_offsets(rel[2]))
    alts = [x for _, d in ret_descs(F, ie) for x in flat(d)]
    if not alts:
        return False, 'no return value'
    real = 0
    for x in alts:
        if x[0] == 'const' and str(x[2]) in ('0', 'false'):
            continue   # None => false
        if _is_call(x, 'Option::is_some_and') and len(x[3]) == 2 and slot(x[3][0]) and x[3][1][0] == 'agg' and x[3][1][1] == 'closure':
            caps = x[3][1][3]
            cls = [b for b in F.closures_of(ie) if b.canon == x[3][1][2]]
            if len(cls) != 1:
                return False, 'closure not found'
            cl = cls[0]
            crets = [y for _, d in ret_descs(F, cl) for y in flat(d)]
            def bound(b):
                return b[0] == 'upvar' and aft in caps and (b[1] == aft[2] or all(c == aft for c in caps))
            def deadline(a):
                return a[0] == 'param' and a[1] == 2   # the closure's only explicit parameter (local 1 is the environment)
            if not crets or not all(le(y, deadline, bound) for y in crets):
                return False, 'closure computes %s' % ' | '.join(D.render(y)[:80] for y in crets)
            real += 1
            continue
        if le(x, lambda a: a[0] == 'field' and a[2] == '0' and a[1][0] == 'variant' and a[1][2] == 'Some' and slot(a[1][1]), lambda b: b == aft):
            real += 1
            continue
        return False, 'returns %s' % D.render(x)[:100]
    if not real:
        return False, 'no deadline comparison'
    return True, ''


def rule_a(ctx):
    F = ctx.facts
    rs = roots(F)
    ctx.floor('a', 'api_roots', len(rs), 60)
    # BFS once from all roots, remembering predecessors
    prev = {}
    stack = []
    for r in rs:
        prev[r.id] = None
        stack.append(r)
    leaf_hits = []
    qlog = 0
    while stack:
        b = stack.pop()
        for x in F.family(b) if b.kind == 'fn' else [b]:
            live = x.live_blocks()
            for c in x.calls():
                if c.bb not in live or is_noise(c):
                    continue
                if c.is_(*LEAVES) or any(l in canon(c.f) for l in ('::OsRng', '::SysRng', 'ThreadRng')):
                    leaf_hits.append((b, c))
                    continue
                if is_boundary_call(c):
                    continue
                if c.k in ('item', 'closurecall') and c.f in F.bodies:
                    t = F.bodies[c.f]
                    if t.crate != 'quinn_proto':
                        continue
                    if 'qlog' in t.id:
                        continue
                    tr = F.root_of(t)
                    if tr.id not in prev:
                        prev[tr.id] = b.id
                        stack.append(tr)
    ctx.ok('a', 'reachable_core_functions', 'call graph', '', '%d functions reachable from %d API roots without crossing a component boundary' % (len(prev), len(rs)))
    for b, c in leaf_hits:
        key = (b.short, short(c.f))
        if key in EXCEPTIONS:
            ctx.ok('a', 'entropy_exception', b, c.where(), '%s -> %s: %s' % (b.short, short(c.f), EXCEPTIONS[key]))
            continue
        path = []
        cur = b.id
        while cur is not None:
            path.append(short(cur))
            cur = prev.get(cur)
        ctx.bad('a', 'clock_or_entropy_reachable', b, c.where(), 'the protocol core reaches %s: %s -> %s (replay / time-translation no longer determined by the inputs)' % (short(c.f), ' <- '.join(path[:6]), short(c.f)), site_class=short(c.f))
    ctx.check(len([1 for b, c in leaf_hits if (b.short, short(c.f)) in EXCEPTIONS]) == 1, 'a', 'only_the_named_exception', 'Endpoint::new', '', 'one exception edge', 'the named entropy exception (Endpoint::new -> SysRng) disappeared or multiplied')
    # random draws use the seeded generator
    n = 0
    for fid in prev:
        b = F.bodies.get(fid)
        if b is None:
            continue
        for x in F.family(b):
            for c in x.calls():
                if c.bb in x.live_blocks() and (c.tr or '').split('::')[-1] in ('Rng', 'RngExt', 'RngCore', 'TryRng') and short(c.f).split('::')[-1] in ('random', 'random_range', 'random_ratio', 'random_bool', 'fill_bytes', 'fill', 'next_u32', 'next_u64', 'shuffle'):
                    n += 1
                    a = arg_desc(F, c, 0)
                    ok = D.has_field(a, 'rng') or D.has_param(a, name='rng') or D.has_upvar(a, 'rng') or 'rng' in D.render(a)
                    ctx.check(ok, 'a', 'random_draw_from_seeded_rng', b, c.where(), D.render(a)[:60], 'a random draw in the core does not use the seeded connection/endpoint rng: ' + D.render(a)[:100])
    ctx.floor('a', 'random_draw_sites', n, 8)
    # seeding: Connection.rng = StdRng::from_seed(rng_seed) ; Endpoint derives the seed from its own rng
    cn = ctx.pfn('Connection::new')
    fs = cn.calls_to('SeedableRng::from_seed')
    ok = bool(fs) and all(D.has_param(arg_desc(F, c, 0), name='rng_seed') for c in fs)
    why = 'the connection rng is not seeded from the seed handed in by the endpoint'
    # the value STORED in Connection.rng is from_seed(<param rng_seed>) at every construction, and nothing re-assigns the field
    cons = [c for c in constructions(F, 'connection::Connection', None, crate='quinn_proto') if c.adt.split('<')[0].endswith('connection::Connection')]
    if not cons:
        ok, why = False, 'no construction of Connection found'
    for c in cons:
        op = c.field_op('rng')
        alts = flat(describer(F, c.body).operand(op, c.bb, c.idx)) if op is not None else []
        good = bool(alts) and F.root_of(c.body).id == cn.id and all(_is_call(x, 'SeedableRng::from_seed') and len(x[3]) == 1 and x[3][0][0] == 'param' and x[3][0][2] == 'rng_seed' for x in alts)
        if not good:
            ok, why = False, 'Connection.rng is initialised with %s, not StdRng::from_seed(rng_seed)' % (D.render(describer(F, c.body).operand(op, c.bb, c.idx))[:100] if op is not None else '<no rng field>')
    for w in field_writes(F, 'connection::Connection', 'rng', crate='quinn_proto'):
        if w.kind in ('assign', 'callresult'):
            ok, why = False, 'Connection.rng is re-assigned in %s' % F.root_of(w.body).short
        if w.kind == 'mutborrow' and borrow_stores(F, w):
            ok, why = False, 'Connection.rng is overwritten through a borrow in %s' % F.root_of(w.body).short
    ctx.check(ok, 'a', 'connection_rng_seeded_from_endpoint', cn, cn.where(), 'Connection { rng: StdRng::from_seed(rng_seed) }', why)
    ac = ctx.pfn('Endpoint::add_connection')
    okf, whyf = _seed_flows(F, ac, cn)
    ctx.check(okf, 'a', 'connection_seed_drawn_from_endpoint_rng', ac, ac.where(), 'self.rng.fill_bytes(&mut rng_seed); Connection::new(.., rng_seed, ..)',
              'per-connection seeds are not drawn from the endpoint rng: ' + whyf)
    en = ctx.pfn('Endpoint::new')
    ok, why = _endpoint_seed(F, en)
    ctx.check(ok, 'a', 'endpoint_uses_configured_seed', en, en.where(), 'Some(seed) -> Endpoint { rng: StdRng::from_seed(seed) }', 'the configured rng_seed is no longer used: ' + why)


def rule_b(ctx):
    F = ctx.facts
    inv = []
    for c in F.all_calls('quinn_proto'):
        if c.is_(*LEAVES) and not is_noise(c):
            r = F.root_of(c.body)
            inv.append((r, c))
    for r, c in inv:
        ctx.info('b', '%s -> %s at %s' % (r.short, short(c.f), c.where()))
    bbr = [x for x in inv if x[0].short == 'Bbr::new']
    for r, c in bbr:
        ctx.bad('b', 'component_entropy', r, c.where(), 'Bbr::new seeds its gain-cycle generator from the thread RNG: with the BBR controller configured, replaying the same inputs yields different pacing/window traces')
    allowed = {'<EndpointConfig as Default>::default', 'ServerConfig::with_crypto', '<StdSystemTime as TimeSource>::now', 'Endpoint::new', 'Bbr::new',
               '<RandomConnectionIdGenerator as ConnectionIdGenerator>::generate_cid', 'HashedConnectionIdGenerator::new', '<HashedConnectionIdGenerator as ConnectionIdGenerator>::generate_cid',
               # feature `qlog` only: configuration default built by the application; start_time offsets the timestamps of the diagnostic log, not protocol state
               '<QlogConfig as Default>::default'}
    for r, c in inv:
        ctx.check(r.short in allowed, 'b', 'entropy_or_clock_inventory', r, c.where(), 'behind a component boundary / configuration default', 'new clock/entropy use in quinn-proto: %s -> %s' % (r.short, short(c.f)))


def rule_c(ctx):
    F = ctx.facts
    ht = ctx.pfn('Connection::handle_timeout')
    ie = ht.calls_to('TimerTable::is_expired')
    st = [c for c in ht.calls_to('TimerTable::stop')]
    ctx.check(len(ie) == 1 and bool(st), 'c', 'timeout_shape', ht, ht.where(), 'is_expired + stop', 'handle_timeout lost its is_expired / stop structure')
    guards = 0
    for e in ie:
        for br in branches(F, ht):
            inner, neg = peel_not(br.desc)
            if inner[0] == 'call' and is_site(inner, e):
                guards += 1
                t_no = br.target(1 if neg else 0)
                t_yes = br.target(0 if neg else 1)
                arms = [c for c in ht.calls() if c.is_('Connection::kill', 'Connection::on_loss_detection_timeout', 'Connection::ping', 'CidState::on_cid_timeout', 'PendingAcks::on_max_ack_delay_timeout')]
                arms_b = [c.bb for c in arms] + [c.bb for c in constructions(F, 'connection::State', 'Drained', crate='quinn_proto') if c.body.id == ht.id]
                # from the not-expired edge, no arm is reachable before the next is_expired evaluation
                bad = [a for a in arms_b if a in ht.reachable_from(t_no, avoid=[e.bb])]
                ctx.check(not bad and len(arms_b) >= 5, 'c', 'arms_only_for_expired_timers', ht, e.where(), '%d arm sites unreachable from the not-expired edge' % len(arms_b), 'a timer arm can run although the timer has not expired')
                # stop(timer) dominates every arm
                stopped = all(any(ht.dominates(s.bb, a) for s in st) for a in arms_b)
                ctx.check(stopped, 'c', 'expired_timer_stopped_before_arm', ht, e.where(), 'timers.stop(timer) dominates every arm', 'an expired timer is not stopped before its arm runs (repeated handle_timeout at one instant would re-run it)')
    if guards != 1:
        # fail closed: the two obligations above are only stated under a branch whose condition IS the is_expired result
        ctx.bad('c', 'arms_only_for_expired_timers', ht, ht.where(), 'handle_timeout has %d branches directly on the result of timers.is_expired(timer, now) (expected 1): the expiry guard was reshaped or removed' % guards)
    ie_b = ctx.pfn('TimerTable::is_expired')
    ok, why = _expiry_relation(F, ie_b)
    ctx.check(ok, 'c', 'expiry_relation', ie_b, ie_b.where(), 'self.data[timer] is Some(deadline) and deadline <= after', 'is_expired relation changed: ' + why)
    pt = ctx.pfn('Connection::poll_timeout')
    rds = [x for _, d in ret_descs(F, pt) for x in flat(d)]
    ok = bool(rds) and all(_is_call(x, 'TimerTable::next_timeout') and len(x[3]) == 1 and _self_field(x[3][0], 'timers') for x in rds)
    ctx.check(ok, 'c', 'poll_timeout_is_next_timeout', pt, pt.where(), 'returns self.timers.next_timeout()',
              'poll_timeout no longer reports the timer table minimum: it returns %s' % ' | '.join(D.render(x)[:120] for x in rds))


def rule_d(ctx):
    F = ctx.facts
    pt = ctx.pfn('Connection::poll_transmit')
    # every site of poll_transmit that can build a packet (PacketBuilder::new directly or through a crate-local callee such
    # as send_path_challenge / send_path_response) is unreachable for a drained connection: either it lies behind the
    # dispatch on self.state and off its Drained edge, or it is guarded by `!self.state.is_closed()`
    producers = [c for c in pt.calls() if c.is_('PacketBuilder::new') or (c.f in F.bodies and site_may_reach(F, c, ['PacketBuilder::new'], 2))]
    ctx.floor('d', 'packet_producing_sites_in_poll_transmit', len(producers), 3)
    pb = [c.bb for c in producers]
    st = F.adt('quinn_proto::connection::State')
    didx = [i for i, v in enumerate(st['variants']) if v['name'] == 'Drained'][0]
    disp = None
    for br in branches(F, pt):
        if br.desc[0] == 'discr' and br.desc[1][0] == 'field' and br.desc[1][2] == 'state' and br.target(didx) is not None:
            disp = br
            break
    closed_guards = bool_edges(ctx, pt, lambda d: d[0] == 'call' and d[1] == 'State::is_closed')
    ok = disp is not None
    unguarded = []
    if disp is not None:
        t = disp.target(didx)
        reach = pt.reachable_from(t, avoid=[disp.bb])
        ok = all(any(y[0] == 'agg' and y[2].endswith('None') for y in flat(describer(F, pt).place([0, []], r, term_idx(pt, r)))) for r in pt.return_blocks() if r in reach)
        for c in producers:
            behind_dispatch = pt.dominates(disp.bb, c.bb) and c.bb not in reach
            behind_guard = any(truth and pt.dominates(br.bb, c.bb) and c.bb not in pt.reachable_from(tgt, avoid=[br.bb]) for br, truth, tgt in closed_guards)
            if not (behind_dispatch or behind_guard):
                unguarded.append('%s at %s' % (short(c.f), c.where()))
        ok = ok and not unguarded
    ctx.check(ok, 'd', 'drained_connection_sends_nothing', pt, pt.where(), 'State::Drained -> return None; every packet-producing site behind it or behind !is_closed()', 'poll_transmit can build a packet for a drained connection: %s' % (unguarded if disp is not None else 'no dispatch on self.state'))
    pdp = ctx.pfn('Connection::process_decrypted_packet')
    ok = False
    for br in branches(F, pdp):
        if br.desc[0] == 'discr' and D.has_field(br.desc[1], 'state') and br.desc[1][0] == 'field':
            t = br.target(didx)
            calls = [c for c in pdp.calls() if c.bb in pdp.reachable_from(t, avoid=[br.bb]) and not is_noise(c) and c.is_('Connection::process_payload', 'Connection::process_early_payload', 'Iter::new')]
            ok = not calls
            break
    ctx.check(ok, 'd', 'drained_connection_ignores_packets', pdp, pdp.where(), 'Draining | Drained => return Ok(())', 'a drained connection still processes packets')
    # no Close timer survives the transition to Drained (shared shape with C08.a)
    from rules import C08
    hp = ctx.pfn('Connection::handle_packet')
    ev = [c for c in constructions(F, 'EndpointEventInner', 'Drained', crate='quinn_proto') if F.root_of(c.body).id == hp.id]
    for e in ev:
        # on every path through the Drained push the last operation on Timer::Close is self.timers.stop(Timer::Close): the stop
        # may stand before or after the (independent) push, but nothing that may arm the timer lies between it and the return
        why = _timer_left_armed(F, hp, e.bb, 'Close')
        ctx.check(why is None, 'd', 'no_timer_left_on_drained_connection', hp, e.where(), 'on every path emitting Drained, timers.stop(Timer::Close) is the last operation on the Close timer',
                  'a connection drained by a packet (stateless reset while closing) keeps its Close timer: poll_timeout still reports a deadline and servicing it emits a second Drained (%s)' % why)
    k = ctx.pfn('Connection::kill')
    # every path through kill passes a site that stops EVERY timer (loop over Timer::VALUES calling timers.stop(element) in each
    # iteration), directly or inside a callee such as close_common — the callee's body is checked, its name is not trusted
    sa = _stop_all_sites(F, k, 2)
    okk = bool(sa) and path_avoiding(k, [0], k.return_blocks(), sa) is None
    ctx.check(okk, 'd', 'kill_stops_all_timers', k, k.where(), 'close_common(): for &timer in &Timer::VALUES { self.timers.stop(timer) }',
              'kill leaves timers armed on a drained connection (no loop over Timer::VALUES stopping each element on every path: %s)' % ('a path avoids it' if sa else 'none found in kill or its callees'))
    _closed_connection_is_inert(ctx)


# --------------------------------------------------------------------------
# (d, continued) what a function does when it is ENTERED with the connection in a given State variant
# --------------------------------------------------------------------------

STATE_ADT = 'quinn_proto::connection::State'
CONN_ADT = 'quinn_proto::connection::Connection'
# fields of Connection that are pure bookkeeping: never read by the state machine, never part of its output
COUNTER_FIELDS = ('stats',)


def _strip_ref(ty):
    t = ty.strip()
    while t.startswith('&'):
        t = t[1:].strip()
        if t.startswith("'"):
            t = t.split(' ', 1)[1].strip() if ' ' in t else t
        if t.startswith('mut '):
            t = t[4:].strip()
    return t


def _conn_param(body):
    """index of the parameter that is (a reference to) the Connection; None when there is none (closures, helpers)"""
    hits = [i for i in range(1, body.argc + 1) if body.locals[i][0].strip().startswith('&') and _strip_ref(body.locals[i][0]).split('<')[0].endswith('connection::Connection')]
    return hits[0] if len(hits) == 1 else None


def _conn_state_field(F):
    """name of the field of Connection that holds the connection::State (by type, not by name)"""
    fs = [f[0] for f in F.adt(CONN_ADT)['variants'][0]['fields'] if f[1].split('<')[0].endswith('connection::State')]
    if len(fs) != 1:
        raise CheckBroken('Connection has %d fields of type connection::State' % len(fs))
    return fs[0]


_VPRED = __import__('engine.facts', fromlist=['register_memo']).register_memo({})


def _variant_pred(F, fid):
    """{discriminant: bool} when `fid` is a crate-local `fn(&State) -> bool` whose result is decided by the variant alone
    (`matches!(*self, ..)`, `match self { .. => true, .. }`): evaluated per variant by following the CFG; None otherwise."""
    k = (F.uid, fid)
    if k in _VPRED:
        return _VPRED[k]
    _VPRED[k] = None
    b = F.bodies.get(fid)
    if b is None or b.kind != 'fn' or b.crate != 'quinn_proto' or b.argc != 1 or b.locals[0][0] != 'bool' \
            or not _strip_ref(b.locals[1][0]).split('<')[0].endswith('connection::State'):
        return None
    brs = {br.bb: br for br in branches(F, b)}
    res = {}
    for var in F.adt(STATE_ADT)['variants']:
        v = int(var['discr'])
        cur, val = 0, None
        for _ in range(64):
            blk = b.blocks[cur]
            for st in blk['s']:
                if st[0] == '=' and st[1][0] == 0:
                    if not st[1][1] and st[2][0] == 'use' and st[2][1][0] == 'k' and st[2][1][1] == 'int':
                        val = int(st[2][1][2])
                    else:
                        return None
                elif st[0] == 'sd':
                    return None
            t = blk['t']
            if t[0] == 'ret':
                break
            if t[0] == 'switch':
                br = brs.get(cur)
                if br is None or br.desc != ('discr', ('param', 1, b.locals[1][1])):
                    return None
                cur = br.target(v)
            elif t[0] == 'goto' and len(b.succ[cur]) == 1:
                cur = b.succ[cur][0]
            else:
                return None          # a call, an assert ...: not a pure predicate on the variant
        else:
            return None
        if val is None:
            return None
        res[v] = bool(val)
    _VPRED[k] = res
    return res


def _state_pred(F, d, selfi, sf):
    """{discriminant: bool} when the (Not-peeled) bool descriptor d is a variant predicate applied to `<conn param>.state`:
    `State::is_x(self.state)`, or a one-line `&Connection` wrapper of it (`self.is_closed()`, `self.is_handshaking()`)."""
    if not (isinstance(d, tuple) and d[0] == 'call' and len(d) > 3 and len(d[3]) == 1 and d[2] in F.bodies):
        return None
    a = d[3][0]
    if isinstance(a, tuple) and a[0] == 'field' and a[2] == sf and isinstance(a[1], tuple) and a[1][0] == 'param' and a[1][1] == selfi:
        return _variant_pred(F, d[2])
    if isinstance(a, tuple) and a[0] == 'param' and a[1] == selfi:
        g = F.bodies[d[2]]
        if g.kind == 'fn' and g.crate == 'quinn_proto' and g.argc == 1 and _conn_param(g) == 1 and not g.locals[1][0].strip().startswith('&mut'):
            alts = [x for _, r in ret_descs(F, g) for x in flat(r)]
            if len(alts) == 1:
                inner, neg = peel_not(alts[0])
                p = _state_pred(F, inner, 1, sf) if inner[0] == 'call' and inner[3] and inner[3][0][0] == 'field' else None
                if p is not None:
                    return {v: (not x if neg else x) for v, x in p.items()}
    return None


def _place_class(pl, selfi, sf):
    """how a place relates to the connection: None (not through the connection parameter), 'state' (the whole connection or
    its state field), 'counter' (a bookkeeping field), else the name of the first field"""
    if pl[0] != selfi:
        return None
    proj = [e for e in pl[1] if e != '*']
    if not proj:
        return 'state'
    e = proj[0]
    if not (isinstance(e, list) and e[0] == 'f'):
        return 'state'
    if e[1] == sf:
        return 'state'
    return 'counter' if e[1] in COUNTER_FIELDS else e[1]


_SELFX = __import__('engine.facts', fromlist=['register_memo']).register_memo({})


def _self_effects(F, body, selfi, sf):
    """(E, M): E = {block: text} of the blocks of `body` that change the connection — a store into `<conn>.f..`, a `&mut`
    borrow of the connection or of one of its fields, the connection reference itself handed on (call argument, copy,
    closure capture) — bookkeeping fields excepted; M ⊆ E = the blocks after which `<conn>.state` may have a new value
    (store to / `&mut` of the state field or of the whole connection)."""
    k = (F.uid, body.id, selfi)
    if k in _SELFX:
        return _SELFX[k]
    E, M = {}, set()

    def hit(bb, cls, text):
        if cls is None or cls == 'counter':
            return
        E.setdefault(bb, text)
        if cls == 'state':
            M.add(bb)
    live = body.live_blocks()
    for i, j, s in body.stmts():
        if i not in live:
            continue
        if s[0] == 'sd':
            hit(i, _place_class(s[1], selfi, sf), 'store to the connection at L%s' % s[3])
            continue
        if s[0] != '=':
            continue
        pl, rv, line = s[1], s[2], s[3]
        if pl[1]:
            hit(i, _place_class(pl, selfi, sf), 'store to self.%s at L%s' % (_place_class(pl, selfi, sf), line))
        if rv[0] == 'ref' and rv[1]:
            cls = _place_class(rv[2], selfi, sf)
            hit(i, cls, '&mut self%s at L%s' % ('.' + str(cls) if [e for e in rv[2][1] if e != '*'] else '', line))
        elif rv[0] == 'ptr' and 'Mut' in str(rv[1]):
            hit(i, _place_class(rv[2], selfi, sf), 'raw mutable pointer into the connection at L%s' % line)
        elif rv[0] == 'use' and rv[1][0] in ('c', 'm') and rv[1][1][0] == selfi and not rv[1][1][1] and body.locals[selfi][0].strip().startswith('&mut'):
            hit(i, 'state', 'the connection reference is handed on at L%s' % line)
        elif rv[0] == 'agg' and body.locals[selfi][0].strip().startswith('&mut'):
            if any(o[0] in ('c', 'm') and o[1][0] == selfi and not o[1][1] for o in rv[2]):
                hit(i, 'state', 'the connection reference is captured at L%s' % line)
    for c in body.calls():
        if c.bb not in live:
            continue
        if c.dst and c.dst[1]:
            hit(c.bb, _place_class(c.dst, selfi, sf), 'call result stored into the connection at L%s' % c.line)
        if body.locals[selfi][0].strip().startswith('&mut') and any(a[0] in ('c', 'm') and a[1][0] == selfi and not a[1][1] for a in c.args):
            hit(c.bb, 'state', '%s(self, ..) at L%s' % (short(c.f), c.line))
    _SELFX[k] = (E, M)
    return E, M


def _const_thread(body, a, s, avoid=()):
    """(target, blocks passed) when block `a` ends by assigning constants to locals and the blocks from its successor `s`
    onwards only copy / negate such locals (plain gotos, at most 4 blocks) until one switches on one of them — a materialised
    `x || y` / `matches!` / inlined predicate bound to a variable: the only successor of that switch that can follow `a`.
    None when not determined.  (Body.succ threads the copy-free form only.)"""
    if body.blocks[a]['t'][0] != 'goto':
        return None
    env = {}

    def step(stmts):
        for st in stmts:
            if st[0] == 'sd':
                env.pop(st[1][0], None)
            elif st[0] == '=':
                L, rv = st[1][0], st[2]
                if st[1][1]:
                    if L in env:
                        env.pop(L)
                    continue
                if rv[0] == 'use' and rv[1][0] == 'k' and rv[1][1] == 'int':
                    env[L] = int(rv[1][2])
                elif rv[0] == 'use' and rv[1][0] in ('c', 'm') and not rv[1][1][1] and rv[1][1][0] in env:
                    env[L] = env[rv[1][1][0]]
                elif rv[0] == 'un' and rv[1] == 'Not' and rv[2][0] in ('c', 'm') and not rv[2][1][1] and env.get(rv[2][1][0]) in (0, 1) and body.locals[L][0] == 'bool':
                    env[L] = 1 - env[rv[2][1][0]]
                else:
                    env.pop(L, None)
    step(body.blocks[a]['s'])
    passed = []
    cur = s
    for _ in range(4):
        if not env or cur in avoid or cur == a or cur in passed:
            return None
        blk = body.blocks[cur]
        step(blk['s'])
        passed.append(cur)
        t = blk['t']
        if t[0] == 'switch':
            if t[1][0] not in ('c', 'm') or t[1][1][1] or t[1][1][0] not in env:
                return None
            val = env[t[1][1][0]]
            tgt = t[3]
            for x, y in t[2]:
                if int(x) == val:
                    tgt = y
            return (tgt, passed) if tgt in body.succ[cur] else None
        if t[0] != 'goto' or len(body.succ[cur]) != 1:
            return None
        cur = body.succ[cur][0]
    return None


def _reach_in_state(F, body, v, selfi, sf):
    """blocks of `body` that can execute when it is entered with `<conn>.state` in the variant with discriminant v: CFG
    reachability in which a branch on `discr(<conn>.state)` or on a variant predicate of it only takes the edge of v — for
    as long as nothing on the path may have changed the state (blocks M of _self_effects); from there on every edge is
    taken.  Returns (reached blocks, blocks reached while the state is still known to be v)."""
    E, M = _self_effects(F, body, selfi, sf)
    brs = {br.bb: br for br in branches(F, body)}
    sdesc = ('field', ('param', selfi, body.locals[selfi][1]), sf)
    seen, passed = set(), set()
    stack = [(0, True)]
    while stack:
        bb, known = stack.pop()
        if (bb, known) in seen:
            continue
        seen.add((bb, known))
        k2 = known and bb not in M
        succ = list(body.succ[bb])
        br = brs.get(bb)
        if k2 and br is not None:
            if br.desc[0] == 'discr' and br.desc[1] == sdesc:
                t = br.target(v)
                succ = [t] if t in succ else succ
            else:
                inner, neg = peel_not(br.desc)
                p = _state_pred(F, inner, selfi, sf)
                if p is not None and v in p:
                    t = br.target(1 if (p[v] != neg) else 0)
                    succ = [t] if t in succ else succ
        for s in succ:
            t = _const_thread(body, bb, s, E)
            if t is not None:
                passed.update(t[1])      # the copies execute, the switch has one outcome after `bb`
                s = t[0]
            if (s, k2) not in seen:
                stack.append((s, k2))
    return {b for b, _ in seen} | passed, {b for b, k in seen if k}


def _closed_connection_is_inert(ctx):
    """a connection that is over stays over (467a010): (1) handle_packet entered while Draining / Drained changes nothing of
    the connection but counters; (2) no site arming Timer::PushNewCid executes while the state is Closed / Draining / Drained"""
    F = ctx.facts
    sf = _conn_state_field(F)
    disc = {v['name']: int(v['discr']) for v in F.adt(STATE_ADT)['variants']}
    hp = ctx.pfn('Connection::handle_packet')
    si = _conn_param(hp)
    if si is None:
        ctx.bad('d', 'packet_changes_nothing_when_draining', hp, hp.where(), 'handle_packet no longer takes the connection by reference: the obligation cannot be stated')
    else:
        E, M = _self_effects(F, hp, si, sf)
        # non-vacuity: entered Established, the same walk does reach the packet processing (otherwise the walk proves nothing)
        work = [c.bb for c in hp.calls() if c.bb in hp.live_blocks() and not is_noise(c) and c.k == 'item' and c.f in F.bodies and F.bodies[c.f].crate == 'quinn_proto'
                and c.bb in M]
        r_est, _ = _reach_in_state(F, hp, disc['Established'], si, sf)
        ctx.floor('d', 'connection_changing_calls_of_handle_packet_when_established', len([b for b in work if b in r_est]), 3)
        for name in ('Draining', 'Drained'):
            r, _ = _reach_in_state(F, hp, disc[name], si, sf)
            bad = sorted(b for b in r if b in E)
            first = [b for b in bad if path_avoiding(hp, [0], [b], set(bad) - {b}) is not None] or bad
            ctx.check(not bad, 'd', 'packet_changes_nothing_when_draining', hp, hp.where(),
                      'entered with state %s, handle_packet reaches no store to / &mut borrow of the connection (counters excepted): %d of %d blocks reachable' % (name, len(r), len(hp.live_blocks())),
                      'a datagram delivered to a connection in state %s still acts on it (%s): the close reason, the state (back to Closed, `close = true` => a new CONNECTION_CLOSE) or the timers of a connection '
                      'that is over can change, so a drained connection produces further output' % (name, '; '.join(E[b] for b in first[:3])), site_class=name)
    # (2) Timer::PushNewCid
    closed = ('Closed', 'Draining', 'Drained')
    sets = [c for c in F.callers_of('TimerTable::set', crate='quinn_proto') if F.root_of(c.body).short != 'TimerTable::set' and c.bb in c.body.live_blocks()
            and len(c.args) >= 2 and _timer_arg_may_be(arg_desc(F, c, 1), 'PushNewCid')]
    ctx.floor('d', 'push_new_cid_arming_sites', len(sets), 1)

    def exposed(body, bb, v, depth):
        """None when block bb of body cannot execute in a connection whose state is v (at entry of body, or of every caller
        chain up to `depth`); else the chain of functions through which it can"""
        i = _conn_param(body)
        if i is None:
            return [body.short + ' (no connection parameter: cannot be decided)']
        r, _ = _reach_in_state(F, body, v, i, sf)
        if bb not in r:
            return None
        if body.kind != 'fn' or body.reach or depth == 0:
            return [body.short]
        callers = [c for c in F.callers_of(body.id, crate='quinn_proto') if c.f == body.id and c.bb in c.body.live_blocks()]
        if not callers:
            return [body.short]
        for c in callers:
            # the callee sees the caller's state only if the connection handed over is the caller's own
            sub = exposed(c.body, c.bb, v, depth - 1)
            if sub is not None:
                return [body.short] + sub
        return None
    for c in sets:
        r = F.root_of(c.body)
        chains = []
        for n in closed:
            ch = exposed(c.body, c.bb, disc[n], 2)
            if ch is not None:
                chains.append('%s via %s' % (n, ' <- '.join(ch)))
        ctx.check(not chains, 'd', 'no_cid_timer_on_closed_connection', r, c.where(), 'timers.set(Timer::PushNewCid, ..) cannot execute while the state is Closed / Draining / Drained',
                  'Timer::PushNewCid can be armed on a closed connection (%s): close_common has already stopped every timer, so this one outlives the Close timer and a drained connection '
                  'still reports a deadline from poll_timeout and asks for identifiers when it is serviced' % '; '.join(chains))


def rule_e(ctx):
    F = ctx.facts
    n = 0
    ITER = ('iter', 'iter_mut', 'keys', 'values', 'values_mut', 'drain', 'into_iter', 'retain', 'into_keys', 'into_values', 'extract_if')
    CONSUME = ('extend', 'from_iter', 'chain', 'zip')   # std adaptors that iterate an argument passed as `impl IntoIterator`
    for c in F.all_calls('quinn_proto'):
        sh = short(c.f)
        meth = sh.split('::')[-1]
        if meth not in ITER and meth not in CONSUME:
            continue
        tys = [(i, c.body.local_ty(a[1][0])) for i, a in enumerate(c.args) if a[0] in ('c', 'm') and not a[1][1]]
        named = sh.split('::')[0] in ('HashMap', 'HashSet') and meth in ITER
        if meth in ITER:
            # the receiver decides (covers `for x in &map` == <&HashMap as IntoIterator>::into_iter, which carries no HashMap:: prefix)
            cands = [t for i, t in tys if i == 0]
        else:
            cands = [t for i, t in tys if i >= 1 and c.f not in F.bodies]
        colls = [(t, _hash_coll(t)) for t in cands if _hash_coll(t)]
        if not colls and not named:
            continue
        n += 1
        recv = colls[0][0] if colls else (cands[0] if cands else '')
        det = bool(colls) and all(_det_hasher(h) for _, (_, h) in colls)
        r = F.root_of(c.body)
        ctx.check(det, 'e', 'no_random_state_iteration', r, c.where(), '%s over %s' % (sh, recv[:70]), 'iteration over a RandomState-hashed collection in the protocol core (order differs between runs): %s over %s' % (sh, recv[:100]))
    ctx.ok('e', 'hash_iteration_sites', 'quinn_proto', '', '%d hash-collection iteration sites, all with a deterministic hasher' % n)
    ctx.floor('e', 'hash_iteration_sites', n, 4)

def rule_f(ctx):
    F = ctx.facts
    # every TimerTable::set deadline derives from a `now` parameter / stored instant, never from a clock call
    n = 0
    for c in F.callers_of('TimerTable::set', crate='quinn_proto'):
        r = F.root_of(c.body)
        if r.short == 'TimerTable::set':
            continue
        n += 1
        a = arg_desc(F, c, 2)
        ok = not any(x[0] == 'call' and (x[1].endswith('::now') or x[1].endswith('elapsed')) for x in walk(a))
        # inter-procedural: no crate-local function or closure in the expression may reach a clock / entropy source
        clocky = _clock_reachers(F)
        via = sorted({x[1] for x in walk(a) if x[0] == 'call' and x[2] in clocky} | {short(x[2]) for x in walk(a) if x[0] == 'agg' and x[1] in ('closure', 'coroutine') and x[2] in clocky})
        ok = ok and not via
        src = D.has_param(a, name='now') or any(x[0] == 'param' for x in walk(a)) or any(x[0] == 'field' for x in walk(a)) or any(x[0] == 'call' for x in walk(a))
        ctx.check(ok and src, 'f', 'deadlines_derive_from_inputs', r, c.where(), D.render(a)[:90], 'a timer deadline is computed from a clock read%s: ' % (' (through %s)' % ', '.join(via) if via else '') + D.render(a)[:140])
    ctx.floor('f', 'timer_set_sites', n, 9)
    # Instant API surface used by the core
    used = set()
    for c in F.all_calls('quinn_proto'):
        f = canon(c.f)
        if 'time::Instant' in f or f.startswith('std::time::Instant') or 'Instant as' in f:
            used.add(short(c.f))
    allowed_sub = ('add', 'sub', 'add_assign', 'sub_assign', 'checked_add', 'checked_sub', 'saturating_duration_since', 'checked_duration_since', 'duration_since', 'cmp', 'partial_cmp', 'lt', 'le', 'gt', 'ge', 'eq', 'ne', 'max', 'min', 'clone', 'fmt', 'hash', 'now')
    bad = sorted(u for u in used if u.split('::')[-1] not in allowed_sub)
    ctx.check(not bad, 'f', 'instant_api_surface', 'Instant', '', '%d distinct Instant operations, all translation-invariant' % len(used), 'the core uses Instant operations that are not translation-invariant: %s' % bad)



# --------------------------------------------------------------------------
# (g) a timer that is re-armed from a queue makes progress: the expired record is consumed before the re-arm is requested
# --------------------------------------------------------------------------

def _is_vecdeque_call(y):
    return isinstance(y, tuple) and y[0] == 'call' and ('VecDeque::' in y[2] or y[1].startswith('VecDeque::'))


def _front_queue(F, nt):
    """`nt` (the function whose Some payload is the PushNewCid deadline) returns a value read from `self.Q.front()` and from no
    other VecDeque access; alternatives that read nothing are `None`.  Returns (Q, '') or (None, why)."""
    alts = [x for _, d in ret_descs(F, nt) for x in flat(d)]
    if not alts:
        return None, 'no return value'
    qs = set()
    for x in alts:
        vd = [y for y in walk(x) if _is_vecdeque_call(y)]
        if not vd:
            if any(y[0] == 'agg' and y[2].endswith('None') for y in walk(x)) and not any(y[0] == 'call' for y in walk(x)):
                continue
            return None, 'it may return %s, which is not read from the head of the expiry queue' % D.render(x)[:100]
        for y in vd:
            if y[1].split('::')[-1] == 'front' and len(y[3]) == 1 and isinstance(y[3][0], tuple) and y[3][0][0] == 'field' and _self_field(y[3][0], y[3][0][2]):
                qs.add(y[3][0][2])
            else:
                return None, 'it reads the queue through %s' % D.render(y)[:100]
    if len(qs) != 1:
        return None, 'no single queue field'
    return qs.pop(), ''


def _is_mut_self_method(F, c, recv_field):
    """call c is a crate-local function taking `&mut <param>.recv_field` as its receiver"""
    if c.k != 'item' or c.f not in F.bodies or not c.args:
        return False
    cb = F.bodies[c.f]
    if cb.kind != 'fn' or cb.crate != 'quinn_proto' or cb.argc < 1 or not cb.locals[1][0].startswith('&mut'):
        return False
    return _self_field(arg_desc(F, c, 0), recv_field)


def _pop_sites(F, body, q, depth=1):
    """blocks of `body` that remove the head of self.q: `self.q.pop_front()`, or a call handing the whole `self` to a crate-local
    function every normal path of which does so"""
    res = set()
    live = body.live_blocks()
    for c in body.calls():
        if c.bb not in live or not c.args:
            continue
        if short(c.f).split('::')[-1] == 'pop_front' and 'VecDeque' in canon(c.f) and _self_field(arg_desc(F, c, 0), q):
            res.add(c.bb)
        elif depth > 0 and c.k == 'item' and c.f in F.bodies and F.bodies[c.f].kind == 'fn' and F.bodies[c.f].crate == 'quinn_proto' and not is_noise(c):
            a0 = arg_desc(F, c, 0)
            if isinstance(a0, tuple) and a0[0] == 'param' and a0[1] == 1:
                cb = F.bodies[c.f]
                sub = _pop_sites(F, cb, q, depth - 1)
                if sub and path_avoiding(cb, [0], cb.return_blocks(), sub) is None:
                    res.add(c.bb)
    return res


def rule_g(ctx):
    F = ctx.facts
    from rules import C08
    # 1. the deadline of every arming of Timer::PushNewCid IS the Some payload of <self.S>.next(): S = the CID state, next = its peek
    sets = [c for c in F.callers_of('TimerTable::set', crate='quinn_proto') if F.root_of(c.body).short != 'TimerTable::set' and c.bb in c.body.live_blocks()
            and len(c.args) >= 3 and C08.timer_const(arg_desc(F, c, 1), 'PushNewCid')]
    ctx.floor('g', 'push_new_cid_arming_sites', len(sets), 1)
    peeks = {}
    for c in sets:
        r = F.root_of(c.body)
        alts = flat(arg_desc(F, c, 2))
        good = True
        for x in alts:
            src = x[1][1] if (x[0] == 'field' and x[2] == '0' and x[1][0] == 'variant' and x[1][2] == 'Some') else None
            if not (src is not None and src[0] == 'call' and src[2] in F.bodies and F.bodies[src[2]].crate == 'quinn_proto' and len(src[3]) == 1
                    and isinstance(src[3][0], tuple) and src[3][0][0] == 'field' and src[3][0][1][0] == 'param'):
                good = False
                continue
            peeks.setdefault(src[2], set()).add(src[3][0][2])
        ctx.check(good, 'g', 'cid_timer_armed_from_expiry_queue', r, c.where(), D.render(arg_desc(F, c, 2))[:90],
                  'Timer::PushNewCid is armed with %s, not with the head of the CID expiry queue: after the timer is serviced the re-arm need not move past `now`' % D.render(arg_desc(F, c, 2))[:120])
    if len(peeks) != 1 or len(list(peeks.values())[0]) != 1:
        if sets:
            ctx.bad('g', 'cid_timer_armed_from_expiry_queue', F.root_of(sets[0].body), sets[0].where(), 'no single peek function supplies the PushNewCid deadline (%s)' % sorted(short(k) for k in peeks))
        return
    nt = F.bodies[list(peeks)[0]]
    state_field = list(list(peeks.values())[0])[0]
    q, why = _front_queue(F, nt)
    ctx.check(q is not None, 'g', 'cid_deadline_is_queue_front', nt, nt.where(), 'returns self.%s.front().map(..)' % q, 'the PushNewCid deadline is not the head of the expiry queue: ' + why)
    if q is None:
        return
    # 2. handle_timeout asks the endpoint for identifiers (whose arrival re-arms the timer from the queue head) only after a call
    #    on the CID state that removes the expired head on EVERY path
    ht = ctx.pfn('Connection::handle_timeout')
    live = ht.live_blocks()
    reqs = [c for c in constructions(F, 'EndpointEventInner', 'NeedIdentifiers', crate='quinn_proto') if F.root_of(c.body).id == ht.id and c.body.id == ht.id and c.bb in live]
    ctx.floor('g', 'identifier_requests_in_handle_timeout', len(reqs), 1)
    cands = [c for c in ht.calls() if c.bb in live and not is_noise(c) and _is_mut_self_method(F, c, state_field)]
    heads = {c.bb for c in ht.calls_to('TimerTable::is_expired')}
    rets = set(ht.return_blocks())
    consuming, partial = [], []
    for c in cands:
        cb = F.bodies[c.f]
        pops = _pop_sites(F, cb, q, 1)
        p = path_avoiding(cb, [0], cb.return_blocks(), pops) if pops else [0]
        if p is None:
            consuming.append(c)
        elif pops:
            partial.append((c, cb, p))
    for e in reqs:
        def covers(c):
            return (c.bb != e.bb and ht.dominates(c.bb, e.bb)) or path_avoiding(ht, list(ht.succ[e.bb]), rets | heads, {c.bb}) is None
        if any(covers(c) for c in consuming):
            ctx.ok('g', 'expired_cid_record_consumed', ht, e.where(), 'NeedIdentifiers is only emitted together with %s, every path of which pops self.%s' % (', '.join(sorted({short(c.f) for c in consuming if covers(c)})), q))
            continue
        hit = [(c, cb, p) for c, cb, p in partial if covers(c)]
        if hit:
            for c, cb, p in hit:
                ctx.bad('g', 'expired_cid_record_consumed', cb, cb.where(), '%s keeps the expired record at the head of self.%s on the path %s, while handle_timeout still requests identifiers: their arrival re-arms Timer::PushNewCid '
                        'from that same record (deadline <= now), so servicing timeouts at one instant never reaches a state whose next timeout is in the future' % (cb.short, q, fmt_path(cb, p)))
        else:
            ctx.bad('g', 'expired_cid_record_consumed', ht, e.where(), 'handle_timeout requests identifiers (re-arming Timer::PushNewCid from the head of self.%s.%s) on a path that does not pass a call removing the expired head' % (state_field, q))
    # 3. the consuming function hands `&mut self.q` to nothing but pop_front (a push_front / insert would put an expired record back)
    for c in consuming + [x[0] for x in partial]:
        cb = F.bodies[c.f]
        for x in F.family(cb):
            for o in x.calls():
                if o.bb not in x.live_blocks() or is_noise(o):
                    continue
                for i, a in enumerate(o.args):
                    if a[0] in ('c', 'm') and not a[1][1] and x.local_ty(a[1][0]).startswith('&mut') and 'VecDeque<' in x.local_ty(a[1][0]) and D.has_field(arg_desc(F, o, i), q) \
                            and short(o.f).split('::')[-1] != 'pop_front':
                        ctx.bad('g', 'expired_cid_record_not_reinserted', cb, o.where(), '%s mutates self.%s through %s while servicing the CID timer: an expired record may be put back at the head' % (cb.short, q, short(o.f)))
    if consuming:
        ctx.ok('g', 'expired_cid_record_not_reinserted', F.bodies[consuming[0].f], F.bodies[consuming[0].f].where(), 'self.%s is only popped while servicing the timer' % q)


def run(ctx):
    rule_a(ctx)
    rule_b(ctx)
    rule_c(ctx)
    rule_d(ctx)
    rule_e(ctx)
    rule_f(ctx)
    rule_g(ctx)
    ctx.assume('component boundaries: crypto::*, congestion::Controller(Factory), ConnectionIdGenerator, TokenLog, TokenStore, TimeSource, qlog sinks are inputs of the state machine')
