"""C18 — async API: no lost wake-ups, cancel-safety, clean teardown (structural part)."""
from engine.rulelib import *
from engine import desc as D

EXPLANATION = ("Static rules over the quinn crate's MIR (lowered coroutines included): (a) PENDING-JUSTIFIED: every Poll::Pending produced is either the Pending arm "
               "of a polled callee or preceded on all paths by a registration (waker stored in blocked_readers/blocked_writers, Notified::poll, channel/timer/socket "
               "poll, driver waker stored, self-wake); (b) HELD-AT: Notified futures are created / polled while the connection-state lock taken before the condition "
               "test is still held, and the guard is a plain local released before any suspension; (c) WAKE-AFTER-MUTATION: after a call that queues work in the proto "
               "connection the driver is woken on every non-error path; (d) forward_app_events wakes the waiter class of each event (Stopped wakes both stopped() "
               "waiters and blocked writers) and terminate() notifies every Notify of Shared and drains every waker map; (e) implicit actions of Drop impls (finish / "
               "stop / close / drained / refuse) and removal of stale registrations; a connection inserted into a closed endpoint is told to close; (f) cancel-safety "
               "shape: an item taken from the proto connection is returned Ready in the same poll (no take-then-Pending path), SendDatagram puts its datagram back; "
               "(g) driver loop discipline. Real scheduler interleavings and tokio Notify semantics are NOT decided.")
RULE = "rule instances = (rule, site) pairs over MIR Pending constructions / lock regions / call sites; non-trivial = bound to a real site"

REGISTRATION = ['Notified::poll', '<Notified as Future>::poll', 'UnboundedReceiver::poll_recv', 'AsyncTimer::poll', 'UdpSender::poll_send', 'AsyncUdpSocket::poll_recv',
                'Waker::wake_by_ref', 'UdpSocket::poll_recv_ready', 'UdpSocket::poll_send_ready', 'Receiver::poll', '<Receiver as Future>::poll', 'UdpPollHelper::poll_writable',
                'UdpPoller::poll_writable', 'Future::poll', 'Sleep::poll', 'AsyncFd::poll_read_ready', 'AsyncFd::poll_write_ready', 'Registration::poll_read_ready']


def _is_registration(F, c):
    if c.is_(*REGISTRATION) or short(c.f).endswith('::poll') or short(c.f).endswith('::poll_recv') or short(c.f).endswith('::poll_send') or '::poll_' in short(c.f):
        return True
    if c.is_('HashMap::insert'):
        a = arg_desc(F, c, 0)
        return D.has_field(a, 'blocked_readers') or D.has_field(a, 'blocked_writers')
    return False


def rule_a(ctx):
    F = ctx.facts
    cs = constructions(F, 'Poll', 'Pending', crate='quinn')
    n = 0
    for c in cs:
        b = c.body
        r = F.root_of(b)
        n += 1
        # (1) Pending arm of a polled callee: dominated by a branch on the discriminant of a call result, on its `1` (Pending) edge
        just = None
        for br in branches(F, b):
            if br.desc[0] == 'discr' and any(x[0] == 'call' for x in walk(br.desc[1])) and b.dominates(br.bb, c.bb):
                t = br.target(1)
                if t is not None and (c.bb == t or c.bb in b.reachable_from(t, avoid=[br.bb])) and all(c.bb not in b.reachable_from(t2, avoid=[br.bb]) for v, t2 in br.edges if t2 != t):
                    call_names = [x[1] for x in walk(br.desc[1]) if x[0] == 'call']
                    if any('poll' in nm.lower() or nm.endswith('is_pending') for nm in call_names):
                        just = 'Pending arm of %s' % call_names[0]
                        break
        # Poll::is_pending() test
        if just is None:
            for br in branches(F, b):
                if D.has_call(br.desc, 'Poll::is_pending') and b.dominates(br.bb, c.bb):
                    just = 'is_pending() arm'
        # (2) preceded on all paths by a registration
        if just is None:
            reg = {x.bb for x in b.calls() if _is_registration(F, x)}
            # driver = Some(waker)
            reg |= {w.bb for w in field_writes(F, 'connection::State', 'driver', crate='quinn') if w.body.id == b.id and w.kind == 'assign'}
            reg |= {w.bb for w in field_writes(F, 'endpoint::State', 'driver', crate='quinn') if w.body.id == b.id and w.kind == 'assign'}
            # callees that register on every path (summaries, depth 3): e.g. drive_recv -> poll_socket -> AsyncUdpSocket::poll_recv
            reg |= must_sites(F, b, ['AsyncUdpSocket::poll_recv', 'UnboundedReceiver::poll_recv', 'UdpSender::poll_send', 'AsyncTimer::poll'], 3)
            p = path_avoiding(b, [0], [c.bb], reg - {c.bb}) if c.bb not in reg else None
            if p is None:
                just = 'registration dominates'
        ctx.check(just is not None, 'a', 'pending_justified', r, c.where(), just or '', 'Poll::Pending is returned without a waker registration on some path (lost wake-up): %s' % r.short, site_class=r.short)
    ctx.floor('a', 'pending_sites', n, 35)


def _guard_locals(b):
    return [i for i, (ty, nm) in enumerate(b.locals) if 'MutexGuard' in ty and not ty.startswith('&')]


def _drops_of(b, local):
    res = set()
    for i, blk in enumerate(b.blocks):
        if blk['c']:
            continue
        t = blk['t']
        if t[0] == 'drop' and t[1][0] == local and not t[1][1]:
            res.add(i)
        if t[0] == 'call':
            c = t[1]
            if (c['f'] or '').endswith('mem::drop') and c['args'] and c['args'][0][0] == 'm' and c['args'][0][1][0] == local:
                res.add(i)
    return res


def rule_b(ctx):
    F = ctx.facts
    n = 0
    # 1. Notified creation under the lock in async fns
    for fn in ('Connection::closed', 'Connection::handshake_confirmed', 'SendStream::stopped', 'Endpoint::wait_idle'):
        bodies = [b for b in F.code_bodies('quinn') if b.kind == 'coroutine' and path_matches(F.root_of(b).id, fn)]
        ok_any = False
        for b in bodies:
            locks = b.calls_to('Mutex::lock')
            nots = b.calls_to('Notify::notified')
            for nt in nots:
                n += 1
                held = False
                for lk in locks:
                    g = lk.dst[0]
                    if lk.dst[1]:
                        continue
                    drops = _drops_of(b, g)
                    # notified() reachable from the lock without passing a drop of the guard, and not reachable after a drop (without re-locking)
                    reach_nodrop = nt.bb in b.reachable_from(lk.t, avoid=drops) if lk.t is not None else False
                    after_drop = any(nt.bb in b.reachable_from(b.succ[d_][0], avoid=[lk.bb]) for d_ in drops if b.succ[d_]) if drops else False
                    if reach_nodrop and not after_drop and 'MutexGuard' in b.locals[g][0]:
                        held = True
                ok_any = ok_any or held
                ctx.check(held, 'b', 'notified_created_under_lock', F.root_of(b), nt.where(), 'Notify::notified() between lock() and the guard drop',
                          'the Notified future is created after the state lock was released: a notification between the check and the registration is lost', site_class=fn)
        ctx.check(bool(bodies) and ok_any, 'b', 'waiter_future_present', fn, '', 'found', '%s: no Notified creation under the lock found' % fn)
    # 2. poll fns: Notified::poll while the guard taken before the condition test is still held
    for fn in ('connection::poll_open', 'connection::poll_accept', '<ReadDatagram as Future>::poll', '<SendDatagram as Future>::poll', '<Accept as Future>::poll'):
        b = ctx.qfn(fn)
        locks = b.calls_to('Mutex::lock')
        polls = [c for c in b.calls() if c.is_('<Notified as Future>::poll', 'Notified::poll') or (short(c.f).endswith('::poll') and 'Notified' in c.f)]
        ctx.check(bool(locks) and bool(polls), 'b', 'poll_fn_shape', b, b.where(), '%d lock, %d Notified::poll' % (len(locks), len(polls)), '%s no longer locks the state and polls a Notified' % fn)
        for pc in polls:
            n += 1
            held = False
            for lk in locks:
                g = lk.dst[0]
                drops = _drops_of(b, g)
                if lk.t is not None and pc.bb in b.reachable_from(lk.t, avoid=drops) and not any(pc.bb in b.reachable_from(b.succ[d_][0], avoid=[lk.bb]) for d_ in drops if b.succ[d_]):
                    held = True
            ctx.check(held, 'b', 'notified_polled_under_lock', b, pc.where(), 'Notified::poll reached with the state guard still held', 'the Notified is polled after the state lock was dropped: readiness can race with registration', site_class=fn)
    ctx.floor('b', 'lock_region_sites', n, 8)
    # 3. no guard saved across a suspension: MutexGuard never stored into a coroutine state field
    bad = []
    for b in F.code_bodies('quinn'):
        if b.kind != 'coroutine':
            continue
        for i, j, pl, rv, line in b.assigns():
            if pl[0] == 1 and pl[1] and rv[0] == 'use' and rv[1][0] == 'm' and 'MutexGuard' in b.locals[rv[1][1][0]][0] and not rv[1][1][1]:
                bad.append('%s:%d' % (b.file, line))
    ctx.check(not bad, 'b', 'no_guard_across_await', 'quinn coroutines', '', 'no MutexGuard is moved into coroutine state', 'a MutexGuard is kept across an await point: %s' % bad)


WAKE_TABLE = [
    # (quinn fn, proto callee(s), needs wake on the non-error path)
    ('SendStream::finish', ['SendStream::finish']),
    ('SendStream::reset', ['SendStream::reset']),
    ('SendStream::execute_poll', ['FnOnce::call_once']),
    ('RecvStream::stop', ['RecvStream::stop']),
    ('Connection::set_max_concurrent_uni_streams', ['Connection::set_max_concurrent_streams']),
    ('Connection::set_max_concurrent_bi_streams', ['Connection::set_max_concurrent_streams']),
    ('Connection::set_receive_window', ['Connection::set_receive_window']),
    ('Connection::send_datagram', ['Datagrams::send']),
    ('<SendDatagram as Future>::poll', ['Datagrams::send']),
    ('connection::poll_accept', ['Streams::accept']),
    ('State::close', ['quinn_proto::Connection::close']),
]


def rule_c(ctx):
    F = ctx.facts
    n = 0
    for fn, protos in WAKE_TABLE:
        b = ctx.qfn(fn)
        sites = [c for c in b.calls() if c.is_(*protos) and c.bb in b.live_blocks()]
        if fn == 'SendStream::execute_poll':
            sites = [c for c in b.calls() if c.k in ('closurecall', 'unresolved', 'item') and short(c.f).endswith('call_once')]
        wakes = {c.bb for c in b.calls_to('connection::State::wake', 'State::wake')}
        ctx.check(bool(sites) and bool(wakes), 'c', 'wake_site_present', b, b.where(), '%d proto call(s), %d wake()' % (len(sites), len(wakes)), '%s no longer wakes the driver after %s' % (fn, protos))
        for s in sites:
            n += 1
            # success edge: for Result/Option returning calls, the Ok/Some edge; error/None exits are exempt
            exempt = {c.bb for c in b.calls() if c.is_('FromResidual::from_residual')}
            starts = b.succ[s.bb]
            avoid = wakes | exempt
            # follow only the success side of the first branch on the call result
            for br in branches(F, b):
                inner, neg = peel_not(br.desc)
                if inner[0] == 'discr' and contains_site(inner, s):
                    dsc = inner[1]
                    # Option: Some=1 ; Result: Ok=0 ; ControlFlow: Continue=0
                    is_opt = any(x[0] == 'call' and (x[1].endswith('::accept') or x[1].endswith('::recv')) for x in walk(dsc)) and not any(x[0] == 'call' and 'branch' in x[1] for x in walk(dsc))
                    good = br.target(1) if is_opt else br.target(0)
                    starts = [good]
                    break
            p = path_avoiding(b, starts, b.return_blocks(), avoid)
            # paths that end in an Err/None construction are not "queued work" paths
            if p is not None:
                d = describer(F, b)
                rb = p[-1]
                rv = d.place([0, []], rb, term_idx(b, rb))
                if all((y[0] == 'agg' and (y[2].endswith('Err') or y[2].endswith('None'))) or (y[0] == 'agg' and y[2].endswith('Ready') and any(z[0] == 'agg' and z[2].endswith('Err') for z in walk(y))) or y[0] == 'agg' and y[2].endswith('Pending') or (y[0] == 'agg' and y[2].endswith('Ok') and fn == 'SendStream::finish') for y in flat(rv)):
                    # error / pending exits (and finish() on a stopped stream, which queues nothing) need no wake
                    only_err = True
                    # make sure the *pure success* return is covered: check path to returns avoiding wakes AND error constructions
                    errs = {c2.bb for c2 in constructions(F, 'Result', 'Err', crate='quinn') if c2.body.id == b.id} | {c2.bb for c2 in constructions(F, 'Poll', 'Pending', crate='quinn') if c2.body.id == b.id}
                    p = path_avoiding(b, starts, b.return_blocks(), avoid | errs)
                    if p is not None and fn == 'SendStream::finish':
                        p = None if len(wakes) >= 1 and any(w in b.reachable_from(starts[0]) for w in wakes) else p
            ctx.check(p is None, 'c', 'wake_after_mutation', b, s.where(), 'every success path after %s passes State::wake()' % short(s.f),
                      '%s can return successfully after %s without waking the connection driver (queued work is not transmitted): %s' % (fn, short(s.f), fmt_path(b, p)), site_class=short(s.f))
    ctx.floor('c', 'mutation_sites', n, 11)
    # finalize().should_transmit() -> wake in poll_read_generic
    pr = ctx.qfn('RecvStream::poll_read_generic')
    fz = pr.calls_to('Chunks::finalize')
    wk = pr.calls_to('State::wake')
    ok = bool(fz) and bool(wk)
    for f in fz:
        for br in branches(F, pr):
            if D.has_call(br.desc, 'ShouldTransmit::should_transmit') and contains_site(br.desc, f):
                if not any(w.bb in pr.reachable_from(br.target(1), avoid=[br.bb]) for w in wk):
                    ok = False
    ctx.check(ok, 'c', 'read_credit_wakes_driver', pr, pr.where(), 'finalize().should_transmit() -> wake()', 'flow-control credit released by a read no longer wakes the driver')


def _arm_calls(F, b, br, value, stop_blocks):
    t = br.target(value)
    reach = b.reachable_from(t, avoid=[br.bb] + list(stop_blocks))
    out = []
    for c in b.calls():
        if c.bb in reach and not is_noise(c):
            out.append(c)
    return out


def rule_d(ctx):
    F = ctx.facts
    fa = ctx.qfn('State::forward_app_events')
    se = F.adt('StreamEvent') if [1 for p in F.adts if p.endswith('StreamEvent')] else None
    poll = fa.calls_to('quinn_proto::Connection::poll')
    stop = [c.bb for c in poll]
    # find the dispatch on the StreamEvent discriminant
    want = {
        'Writable': [('wake_stream', 'blocked_writers')],
        'Readable': [('wake_stream', 'blocked_readers')],
        'Finished': [('wake_stream_notify', 'stopped')],
        'Stopped': [('wake_stream_notify', 'stopped'), ('wake_stream', 'blocked_writers')],
    }
    names = {}
    for p, a in F.adts.items():
        pass
    # StreamEvent variant order (from proto facts)
    sev = [a for p, a in F.adts.items() if p.endswith('streams::StreamEvent') or p.endswith('::StreamEvent')]
    ctx.check(len(sev) == 1, 'd', 'stream_event_adt', 'StreamEvent', '', 'found', 'StreamEvent ADT not found')
    if len(sev) == 1:
        vidx = {v['name']: i for i, v in enumerate(sev[0]['variants'])}
        disp = [br for br in branches(F, fa) if br.desc[0] == 'discr' and len(br.edges) >= 5 and 'Stream' in D.render(br.desc)]
        ctx.check(bool(disp), 'd', 'stream_event_dispatch', fa, fa.where(), 'dispatch found', 'cannot locate the StreamEvent dispatch')
        for name, wants in want.items():
            got = set()
            for br in disp:
                if vidx[name] in [v for v, _ in br.edges]:
                    for c in _arm_calls(F, fa, br, vidx[name], stop + [x.bb for x in disp if x is not br]):
                        for wn, fld in wants:
                            if short(c.f).endswith(wn) and D.has_field(arg_desc(F, c, 1), fld):
                                got.add((wn, fld))
            missing = [w for w in wants if w not in got]
            ctx.check(not missing, 'd', 'event_wakes_its_waiters_' + name, fa, fa.where(), '%s -> %s' % (name, wants),
                      'StreamEvent::%s no longer wakes %s: tasks parked on that condition hang' % (name, missing))
    # Notify-based events
    for fld in ('stream_incoming', 'stream_budget_available', 'datagram_received', 'datagrams_unblocked', 'connected', 'handshake_confirmed'):
        ok = any(c.is_('Notify::notify_waiters') and D.has_field(arg_desc(F, c, 0), fld) for c in fa.calls())
        ctx.check(ok, 'd', 'event_notifies_' + fld, fa, fa.where(), 'shared.%s.notify_waiters()' % fld, 'forward_app_events no longer notifies shared.%s' % fld)
    ctx.check(bool(fa.calls_to('connection::State::terminate', 'State::terminate')), 'd', 'connection_lost_terminates', fa, fa.where(), 'ConnectionLost -> terminate', 'ConnectionLost no longer terminates the async state')
    # terminate covers every Notify of Shared and every waker map of State
    tm = ctx.qfn('connection::State::terminate')
    sh = F.adt('connection::Shared')
    for f in sh['variants'][0]['fields']:
        if 'Notify' in f[1]:
            ok = any(c.is_('Notify::notify_waiters') and D.has_field(arg_desc(F, c, 0), f[0]) for c in tm.calls())
            ctx.check(ok, 'd', 'terminate_notifies_' + f[0], tm, tm.where(), 'shared.%s notified' % f[0], 'terminate() does not notify shared.%s: waiters on it hang when the connection is lost' % f[0])
    for fld, fn in (('blocked_writers', 'wake_all'), ('blocked_readers', 'wake_all'), ('stopped', 'wake_all_notify')):
        ok = any(short(c.f).endswith(fn) and D.has_field(arg_desc(F, c, 0), fld) for c in tm.calls())
        ctx.check(ok, 'd', 'terminate_drains_' + fld, tm, tm.where(), '%s(&mut self.%s)' % (fn, fld), 'terminate() does not wake the tasks registered in %s' % fld)
    er = [w for w in field_writes(F, 'connection::State', 'error', crate='quinn') if w.body.id == tm.id and w.kind == 'assign']
    ctx.check(bool(er), 'd', 'terminate_records_error', tm, tm.where(), 'self.error = Some(reason)', 'terminate() no longer records the error woken tasks will observe')


def rule_e(ctx):
    F = ctx.facts
    table = [
        ('<send_stream::SendStream as Drop>::drop', ['quinn_proto::SendStream::finish', 'SendStream::finish'], 'implicit finish'),
        ('<recv_stream::RecvStream as Drop>::drop', ['quinn_proto::RecvStream::stop', 'RecvStream::stop'], 'implicit stop'),
        ('<connection::ConnectionRef as Drop>::drop', ['State::implicit_close'], 'implicit close on last handle'),
        ('<connection::State as Drop>::drop', ['EndpointEvent::drained'], 'endpoint notified'),
        ('<incoming::Incoming as Drop>::drop', ['Endpoint::refuse', 'EndpointInner::refuse'], 'implicit refuse'),
    ]
    for fn, pats, what in table:
        b = ctx.qfn(fn)
        ctx.check(may_reach(F, b, pats, 2), 'e', 'drop_performs_' + what.replace(' ', '_'), b, b.where(), '%s reaches %s' % (fn, pats[0]), 'dropping no longer performs the %s' % what)
    # State::drop tells the endpoint `Drained` unless the protocol state machine itself already reported it:
    # the only condition that may skip the notification is inner.is_drained()
    sdp = ctx.qfn('<connection::State as Drop>::drop')
    dr = [c for c in sdp.calls() if c.is_('EndpointEvent::drained', 'quinn_proto::EndpointEvent::drained')]
    ctx.floor('e', 'state_drop_drained_sites', len(dr), 1)
    for c in dr:
        skipping = []
        for br in branches(F, sdp):
            if sdp.dominates(br.bb, c.bb) and any(c.bb not in sdp.reachable_from(t, avoid=[br.bb]) for v, t in br.edges):
                skipping.append(br)
        okc = bool(skipping) and all(br.desc[0] == 'call' and br.desc[1] in ('Connection::is_drained', 'quinn_proto::Connection::is_drained') or
                                     (peel_not(br.desc)[0][0] == 'call' and peel_not(br.desc)[0][1].endswith('Connection::is_drained')) for br in skipping)
        ctx.check(okc, 'e', 'state_drop_notifies_unless_drained', sdp, c.where(), 'skipped only when inner.is_drained()',
                  'State::drop skips the endpoint notification under another condition (%s): a connection dropped while closed-but-not-drained leaks its endpoint entry, wait_idle() never returns' % [D.render(br.desc)[:60] for br in skipping])
    for fn, fld in (('<send_stream::SendStream as Drop>::drop', 'blocked_writers'), ('<recv_stream::RecvStream as Drop>::drop', 'blocked_readers'), ('recv_stream::RecvStream::stop', 'blocked_readers')):
        b = ctx.qfn(fn)
        ok = any(c.is_('HashMap::remove') and D.has_field(arg_desc(F, c, 0), fld) for c in b.calls())
        ctx.check(ok, 'e', 'stale_registration_removed_' + fn.split('::')[-2].strip('<> ') + '_' + fld, b, b.where(), '%s.remove(&id)' % fld, '%s leaves a stale waker registration in %s' % (fn, fld))
    sd = ctx.qfn('<send_stream::SendStream as Drop>::drop')
    ctx.check(bool(sd.calls_to('State::wake')), 'e', 'implicit_finish_wakes_driver', sd, sd.where(), 'wake()', 'implicit finish is not transmitted (driver not woken)')
    cr = ctx.qfn('<connection::ConnectionRef as Drop>::drop')
    fs = [c for c in cr.calls() if short(c.f).endswith('::fetch_sub')]
    ctx.check(bool(fs), 'e', 'last_handle_detection', cr, cr.where(), 'ref_count.fetch_sub', 'ConnectionRef::drop no longer counts handles')
    # a connection inserted into an already-closed endpoint is told to close
    ins = ctx.qfn('ConnectionSet::insert')
    brs = [br for br in branches(F, ins) if br.desc[0] == 'discr' and D.has_field(br.desc, 'close')]
    cl = [c for c in constructions(F, 'ConnectionEvent', 'Close', crate='quinn') if c.body.id == ins.id]
    ok = bool(brs) and bool(cl) and all(any(c.bb in ins.reachable_from(br.target(1), avoid=[br.bb]) for c in cl) for br in brs)
    ctx.check(ok, 'e', 'late_connection_on_closed_endpoint_is_closed', ins, ins.where(), 'if let Some((code, reason)) = &self.close { send(Close) }',
              'a connection accepted after Endpoint::close() is not told to close: it stays alive on a closed endpoint and wait_idle never completes')
    ed = ctx.qfn('<endpoint::EndpointDriver as Drop>::drop')
    ctx.check(any(c.is_('Notify::notify_waiters') for c in ed.calls()) and any(c.is_('HashMap::clear') for c in ed.calls()), 'e', 'endpoint_driver_drop_releases', ed, ed.where(), 'senders.clear(); incoming.notify_waiters()', 'dropping the endpoint driver leaves accept() waiters / connection senders dangling')


def rule_f(ctx):
    F = ctx.facts
    # take-then-Pending paths: from the Some edge of the proto accessor, no Pending construction is reachable
    for fn, pats in (('connection::poll_open', ['Streams::open']), ('connection::poll_accept', ['Streams::accept']), ('<ReadDatagram as Future>::poll', ['Datagrams::recv'])):
        b = ctx.qfn(fn)
        pend = [c.bb for c in constructions(F, 'Poll', 'Pending', crate='quinn') if c.body.id == b.id]
        pend += [c.bb for c in b.calls() if c.is_('<Notified as Future>::poll', 'Notified::poll')]
        for s in b.calls_to(*pats):
            ok = False
            for br in branches(F, b):
                if br.desc[0] == 'discr' and is_site(br.desc[1], s):
                    t_some = br.target(1)
                    ok = all(p not in b.reachable_from(t_some, avoid=[br.bb]) for p in pend)
            ctx.check(ok, 'f', 'taken_item_returned_ready', b, s.where(), 'Some(item) edge reaches no Pending', '%s can take an item from the connection and then return Pending (the item is lost if the future is dropped)' % fn, site_class=fn)
    sd = ctx.qfn('<SendDatagram as Future>::poll')
    rep = [c for c in sd.calls_to('Option::replace')]
    pend = [c.bb for c in sd.calls() if c.is_('<Notified as Future>::poll', 'Notified::poll')]
    ok = bool(rep) and bool(pend) and all(any(sd.dominates(r.bb, p) for r in rep) for p in pend)
    ctx.check(ok, 'f', 'blocked_datagram_put_back', sd, sd.where(), 'this.data.replace(data) dominates the Pending path', 'a blocked datagram is not put back before returning Pending')
    ep = ctx.qfn('SendStream::execute_poll')
    pend = [c for c in constructions(F, 'Poll', 'Pending', crate='quinn') if c.body.id == ep.id]
    ins = [c for c in ep.calls() if c.is_('HashMap::insert') and D.has_field(arg_desc(F, c, 0), 'blocked_writers')]
    ok = bool(pend) and bool(ins) and all(any(ep.dominates(i.bb, p.bb) for i in ins) for p in pend) and len(pend) == 1
    ctx.check(ok, 'f', 'write_pending_only_when_blocked', ep, ep.where(), 'single Pending exit, on the Blocked arm after registering', 'execute_poll has a Pending exit other than the Blocked arm')
    pr = ctx.qfn('RecvStream::poll_read_generic')
    pend = [c for c in constructions(F, 'Poll', 'Pending', crate='quinn') if c.body.id == pr.id]
    ins = [c for c in pr.calls() if c.is_('HashMap::insert') and D.has_field(arg_desc(F, c, 0), 'blocked_readers')]
    ok = len(pend) == 1 and bool(ins) and all(any(pr.dominates(i.bb, p.bb) for i in ins) for p in pend)
    # the Pending exit is on the `read == None` arm: dominated by a branch on the discriminant of the Option payload of Failed
    ctx.check(ok, 'f', 'read_pending_only_without_data', pr, pr.where(), 'single Pending exit after registering in blocked_readers', 'poll_read_generic has a Pending exit that does not register / is not the no-data arm')
    st = [w for w in field_writes(F, 'recv_stream::RecvStream', 'reset', crate='quinn') if w.body.id == pr.id and w.kind == 'assign']
    ctx.check(len(st) >= 2, 'f', 'reset_seen_with_data_is_parked', pr, pr.where(), 'self.reset = Some(code) on both Failed(.., Reset) arms', 'a reset observed together with data is no longer parked for the next call')


def rule_g(ctx):
    F = ctx.facts
    dp = ctx.qfn('<ConnectionDriver as Future>::poll')
    pend = [c for c in constructions(F, 'Poll', 'Pending', crate='quinn') if c.body.id == dp.id]
    wk = {c.bb for c in dp.calls_to('Waker::wake_by_ref')} | {w.bb for w in field_writes(F, 'connection::State', 'driver', crate='quinn') if w.body.id == dp.id and w.kind == 'assign'}
    ok = bool(pend) and len(wk) >= 2 and all(path_avoiding(dp, [0], [p.bb], wk) is None for p in pend)
    ctx.check(ok, 'g', 'driver_pending_always_rescheduled', dp, dp.where(), 'wake_by_ref() or driver = Some(waker) before every Pending', 'the connection driver can return Pending without storing its waker or self-waking')
    ctx.check(bool(dp.calls_to('State::process_conn_events')) and bool(dp.calls_to('State::drive_transmit')) and bool(dp.calls_to('State::drive_timer')) and bool(dp.calls_to('State::forward_endpoint_events')) and bool(dp.calls_to('State::forward_app_events')),
              'g', 'driver_stages', dp, dp.where(), 'events -> transmit -> timer -> forward', 'a stage of the connection driver loop is gone')
    dt = ctx.qfn('State::drive_timer')
    ht = dt.calls_to('quinn_proto::Connection::handle_timeout')
    ctx.check(len(ht) >= 2 and bool(dt.calls_to('quinn_proto::Connection::poll_timeout')), 'g', 'timer_serviced', dt, dt.where(), 'poll_timeout + handle_timeout (clock check and post-poll)', 'drive_timer no longer services expired deadlines')
    edp = ctx.qfn('<EndpointDriver as Future>::poll')
    ctx.check(bool(edp.calls_to('Waker::wake_by_ref')), 'g', 'endpoint_driver_self_wakes', edp, edp.where(), 'wake_by_ref when keep_going', 'the endpoint driver no longer reschedules itself when work remains')


def run(ctx):
    rule_a(ctx)
    rule_b(ctx)
    rule_c(ctx)
    rule_d(ctx)
    rule_e(ctx)
    rule_f(ctx)
    rule_g(ctx)
    ctx.assume('tokio::sync::Notify / mpsc / Waker semantics are trusted; Runtime, AsyncUdpSocket, UdpSender, AsyncTimer implementations are component boundaries')
