"""C18 — async API: no lost wake-ups, cancel-safety, clean teardown (structural part)."""
from engine.rulelib import *
from engine import desc as D

EXPLANATION = ("Static rules over the quinn crate's MIR (lowered coroutines included): (a) PENDING-JUSTIFIED: every Poll::Pending produced is either the Pending arm "
               "of a polled callee or preceded on all paths by a registration (waker stored in blocked_readers/blocked_writers, Notified::poll, channel/timer/socket "
               "poll, driver waker stored, self-wake); (b) HELD-AT: Notified futures are created / polled while the connection-state lock taken before the condition "
               "test is still held, and the guard is a plain local released before any suspension; (c) WAKE-AFTER-MUTATION: after a call that queues work in the proto "
               "connection the driver is woken on every non-error path; (d) forward_app_events wakes the waiter class of each event (Stopped wakes both stopped() "
               "waiters and blocked writers) and terminate() notifies every Notify of Shared and drains every waker map; (e) implicit actions of Drop impls (finish / "
               "stop / close / drained / refuse) and removal of stale registrations; a connection inserted into a closed endpoint is told to close; (f) cancel-safety "
               "shape: an item taken from the proto connection is returned Ready in the same poll (no take-then-Pending path), SendDatagram puts its datagram back; "
               "(g) driver loop discipline. Real scheduler interleavings and tokio Notify semantics are NOT decided.")
RULE = "rule instances = (rule, site) pairs over MIR Pending constructions / lock regions / call sites; non-trivial = bound to a real site"

REGISTRATION = ['Notified::poll', '<Notified as Future>::poll', 'UnboundedReceiver::poll_recv', 'AsyncTimer::poll', 'UdpSender::poll_send', 'AsyncUdpSocket::poll_recv',
                'Waker::wake_by_ref', 'UdpSocket::poll_recv_ready', 'UdpSocket::poll_send_ready', 'Receiver::poll', '<Receiver as Future>::poll', 'UdpPollHelper::poll_writable',
                'UdpPoller::poll_writable', 'Future::poll', 'Sleep::poll', 'AsyncFd::poll_read_ready', 'AsyncFd::poll_write_ready', 'Registration::poll_read_ready']


def _is_registration(F, c):
    if c.is_(*REGISTRATION) or short(c.f).endswith('::poll') or short(c.f).endswith('::poll_recv') or short(c.f).endswith('::poll_send') or '::poll_' in short(c.f):
        return True
    if c.is_('HashMap::insert'):
        a = arg_desc(F, c, 0)
        return D.has_field(a, 'blocked_readers') or D.has_field(a, 'blocked_writers')
    return False


def rule_a(ctx):
    F = ctx.facts
    cs = constructions(F, 'Poll', 'Pending', crate='quinn')
    n = 0
    for c in cs:
        b = c.body
        r = F.root_of(b)
        n += 1
        # (1) Pending arm of a polled callee: dominated by a branch on the discriminant of a call result, on its `1` (Pending) edge
        just = None
        for br in branches(F, b):
            if br.desc[0] == 'discr' and any(x[0] == 'call' for x in walk(br.desc[1])) and b.dominates(br.bb, c.bb):
                t = br.target(1)
                if t is not None and (c.bb == t or c.bb in b.reachable_from(t, avoid=[br.bb])) and all(c.bb not in b.reachable_from(t2, avoid=[br.bb]) for v, t2 in br.edges if t2 != t):
                    call_names = [x[1] for x in walk(br.desc[1]) if x[0] == 'call']
                    if any('poll' in nm.lower() or nm.endswith('is_pending') for nm in call_names):
                        just = 'Pending arm of %s' % call_names[0]
                        break
        # Poll::is_pending() test
        if just is None:
            for br in branches(F, b):
                if D.has_call(br.desc, 'Poll::is_pending') and b.dominates(br.bb, c.bb):
                    just = 'is_pending() arm'
        # (2) preceded on all paths by a registration
        if just is None:
            reg = {x.bb for x in b.calls() if _is_registration(F, x)}
            # driver = Some(waker)
            reg |= {w.bb for w in field_writes(F, 'connection::State', 'driver', crate='quinn') if w.body.id == b.id and w.kind == 'assign'}
            reg |= {w.bb for w in field_writes(F, 'endpoint::State', 'driver', crate='quinn') if w.body.id == b.id and w.kind == 'assign'}
            # callees that register on every path (summaries, depth 3): e.g. drive_recv -> poll_socket -> AsyncUdpSocket::poll_recv
            reg |= must_sites(F, b, ['AsyncUdpSocket::poll_recv', 'UnboundedReceiver::poll_recv', 'UdpSender::poll_send', 'AsyncTimer::poll'], 3)
            p = path_avoiding(b, [0], [c.bb], reg - {c.bb}) if c.bb not in reg else None
            if p is None:
                just = 'registration dominates'
        ctx.check(just is not None, 'a', 'pending_justified', r, c.where(), just or '', 'Poll::Pending is returned without a waker registration on some path (lost wake-up): %s' % r.short, site_class=r.short)
    ctx.floor('a', 'pending_sites', n, 35)


UNWRAPS = ('Result::unwrap', 'Result::expect', 'Result::unwrap_or_else', 'Result::unwrap_unchecked', 'Option::unwrap', 'Option::expect', 'PoisonError::into_inner')
LOCKS = ('Mutex::lock', 'Mutex::try_lock')


def _is_guard_ty(ty):
    return 'MutexGuard' in ty and not ty.startswith('&')


def _moves_local(op, local):
    return op[0] == 'm' and op[1][0] == local and not op[1][1]


def _guard_flow(b, lk):
    """HELD-AT (P13) as a forward flow of the value produced by the lock call `lk`: the guard is followed through
    whole-local moves (`let conn = { let g = lock(); g }`, the temporary of an explicit `drop(g)`) and through
    unwrap()/expect() of a std LockResult; it is released by a Drop terminator on its holder or by being moved into any
    other call (mem::drop, ...) or into a place that is not a plain local.  Returns (held, released): blocks at whose
    terminator the guard is held on some path / already released on some path from the lock (paths stop at the lock itself:
    a new guard is produced there).  None when the guard is not the value of a plain local."""
    if lk.dst[1] or lk.t is None or 'MutexGuard' not in b.locals[lk.dst[0]][0]:
        return None
    held, released, seen = set(), set(), set()
    stack = [(lk.t, lk.dst[0])]
    while stack:
        bb, h = stack.pop()
        if (bb, h) in seen or bb == lk.bb:
            continue
        seen.add((bb, h))
        blk = b.blocks[bb]
        if blk['c']:
            continue
        for st in blk['s']:
            if h is None:
                break
            if st[0] != '=':
                continue
            rv = st[2]
            if rv[0] == 'use' and _moves_local(rv[1], h):
                h = st[1][0] if not st[1][1] else None
            elif rv[0] == 'agg' and any(_moves_local(o, h) for o in rv[2]):
                h = None
        (held if h is not None else released).add(bb)
        t = blk['t']
        nh = h
        if h is not None:
            if t[0] == 'drop' and t[1][0] == h and not t[1][1]:
                nh = None
            elif t[0] == 'call' and any(_moves_local(a, h) for a in t[1]['args']):
                c = t[1]
                f = c['f'] or c['df'] or ''
                if any(path_matches(f, u) for u in UNWRAPS) and not c['dst'][1] and _is_guard_ty(b.locals[c['dst'][0]][0]):
                    nh = c['dst'][0]
                else:
                    nh = None
        for s2 in b.succ[bb]:
            stack.append((s2, nh))
    return held, released


def _held_at(b, locks, site_bb):
    """some lock dominates the site and, on every path from that lock to the site, its guard is still held"""
    for lk in locks:
        fl = _guard_flow(b, lk)
        if fl is None:
            continue
        held, released = fl
        if site_bb in held and site_bb not in released and b.dominates(lk.bb, site_bb):
            return True
    return False


def _state_slot(b, pl):
    """the place is a slot of the lowered coroutine's own state: `((*_n) as variant k).field` of the coroutine type"""
    pr = pl[1]
    for i, e in enumerate(pr):
        if isinstance(e, list) and e[0] == 'f' and i > 0 and isinstance(pr[i - 1], list) and pr[i - 1][0] == 'v' and str(e[2]).startswith('{closure}'):
            return True
    return False


def rule_b(ctx):
    F = ctx.facts
    n = 0
    # 1. Notified creation under the lock in async fns
    for fn in ('Connection::closed', 'Connection::handshake_confirmed', 'SendStream::stopped', 'Endpoint::wait_idle'):
        bodies = [b for b in F.code_bodies('quinn') if b.kind == 'coroutine' and path_matches(F.root_of(b).id, fn)]
        ok_any = False
        for b in bodies:
            locks = b.calls_to(*LOCKS)
            nots = b.calls_to('Notify::notified')
            for nt in nots:
                n += 1
                held = _held_at(b, locks, nt.bb)
                ok_any = ok_any or held
                ctx.check(held, 'b', 'notified_created_under_lock', F.root_of(b), nt.where(), 'Notify::notified() between lock() and the release of its guard on every path',
                          'the Notified future is created after the state lock was released: a notification between the check and the registration is lost', site_class=fn)
        ctx.check(bool(bodies) and ok_any, 'b', 'waiter_future_present', fn, '', 'found', '%s: no Notified creation under the lock found' % fn)
    # 2. poll fns: Notified::poll while the guard taken before the condition test is still held
    for fn in ('connection::poll_open', 'connection::poll_accept', '<ReadDatagram as Future>::poll', '<SendDatagram as Future>::poll', '<Accept as Future>::poll'):
        b = ctx.qfn(fn)
        locks = b.calls_to(*LOCKS)
        polls = [c for c in b.calls() if c.bb in b.live_blocks() and (c.is_('<Notified as Future>::poll', 'Notified::poll') or (short(c.f).endswith('::poll') and 'Notified' in c.f))]
        ctx.check(bool(locks) and bool(polls), 'b', 'poll_fn_shape', b, b.where(), '%d lock, %d Notified::poll' % (len(locks), len(polls)), '%s no longer locks the state and polls a Notified' % fn)
        for pc in polls:
            n += 1
            ctx.check(_held_at(b, locks, pc.bb), 'b', 'notified_polled_under_lock', b, pc.where(), 'Notified::poll reached with the state guard still held on every path', 'the Notified is polled after the state lock was dropped: readiness can race with registration', site_class=fn)
    ctx.floor('b', 'lock_region_sites', n, 9)
    # 3. no guard saved across a suspension: in the lowered coroutine nothing of a MutexGuard type is written into a slot of
    #    the coroutine state (only values live across a suspension point are kept there): neither by a move of a guard local
    #    nor as the direct destination of lock() / unwrap() of a LockResult
    bad = []
    slots = 0
    for b in F.code_bodies('quinn'):
        if b.kind != 'coroutine':
            continue
        for i, j, pl, rv, line in b.assigns():
            if not _state_slot(b, pl):
                continue
            slots += 1
            ops = [rv[1]] if rv[0] == 'use' else (list(rv[2]) if rv[0] == 'agg' else [])
            if any(o[0] in ('m', 'c') and not o[1][1] and _is_guard_ty(b.locals[o[1][0]][0]) for o in ops):
                bad.append('%s:%d' % (b.file, line))
        for c in b.calls():
            if not _state_slot(b, c.dst):
                continue
            slots += 1
            if c.is_(*LOCKS) or (c.is_(*UNWRAPS) and any(a[0] in ('m', 'c') and 'MutexGuard' in b.locals[a[1][0]][0] for a in c.args)) or 'MutexGuard' in (c.f or ''):
                bad.append('%s:%d' % (b.file, c.line))
    ctx.check(not bad, 'b', 'no_guard_across_await', 'quinn coroutines', '', 'no MutexGuard is kept in coroutine state (%d state-slot stores examined)' % slots, 'a MutexGuard is kept across an await point: %s' % sorted(set(bad)))
    ctx.floor('b', 'coroutine_state_stores', slots, 30)


# waiting operation -> the Notify of Shared that forward_app_events / the endpoint driver notifies when its condition may have
# become true (rule d pins event -> Notify; this table pins waiter -> Notify).  element: None (scalar Notify), a Dir variant name
# (constructor of the per-direction future) or 'param' (the direction parameter of the shared poll fn).
WAITERS = [
    ('Connection::open_uni', 'stream_budget_available', 'Uni'),
    ('Connection::open_bi', 'stream_budget_available', 'Bi'),
    ('connection::poll_open', 'stream_budget_available', 'param'),
    ('Connection::accept_uni', 'stream_incoming', 'Uni'),
    ('Connection::accept_bi', 'stream_incoming', 'Bi'),
    ('connection::poll_accept', 'stream_incoming', 'param'),
    ('Connection::read_datagram', 'datagram_received', None),
    ('<ReadDatagram as Future>::poll', 'datagram_received', None),
    ('Connection::send_datagram_wait', 'datagrams_unblocked', None),
    ('<SendDatagram as Future>::poll', 'datagrams_unblocked', None),
    ('Connection::closed', 'closed', None),
    ('Connection::handshake_confirmed', 'handshake_confirmed', None),
    ('Connection::authenticated', 'connected', None),
    ('Endpoint::accept', 'incoming', None),
    ('<Accept as Future>::poll', 'incoming', None),
    ('Endpoint::wait_idle', 'idle', None),
]
# the poll fn of a per-direction future passes its own direction to the shared poll fn (the condition tested there is
# `streams().open(dir)` / `streams().accept(dir)`, the Notified it re-arms is element [dir])
DIR_FUTURES = [
    ('<OpenUni as Future>::poll', 'connection::poll_open', 'Uni'),
    ('<OpenBi as Future>::poll', 'connection::poll_open', 'Bi'),
    ('<AcceptUni as Future>::poll', 'connection::poll_accept', 'Uni'),
    ('<AcceptBi as Future>::poll', 'connection::poll_accept', 'Bi'),
]


def _outer_fields(a):
    """names of the outermost field of a receiver descriptor (index / phi peeled); None for an alternative that is not a field"""
    if a[0] == 'phi':
        out = set()
        for x in a[1]:
            out |= _outer_fields(x)
        return out
    while a[0] == 'index':
        a = a[1]
    return {a[2] if a[0] == 'field' else None}


def rule_b_waiter_notify(ctx):
    """every Notified a waiting operation creates (constructor of the future, and the re-arm after a spurious wake-up in its poll
    fn) is created from the Notify that is notified when the operation's own condition may have become true"""
    F = ctx.facts
    dirs = [a for p_, a in F.adts.items() if a.get('crate') == 'quinn_proto' and p_.endswith('quinn_proto::Dir')]
    ctx.check(len(dirs) == 1, 'b', 'dir_adt', 'Dir', '', 'found', 'quinn_proto::Dir not found')
    dval = {v['name']: int(v.get('discr', i)) for i, v in enumerate(dirs[0]['variants'])} if len(dirs) == 1 else {}
    n = 0
    for fn, fld, elem in WAITERS:
        anchor = ctx.qfn(fn)
        bodies = [b for b in F.code_bodies('quinn') if F.root_of(b).id == F.root_of(anchor).id]
        sites = [(b, c) for b in bodies for c in b.calls_to('Notify::notified') if c.bb in b.live_blocks()]
        ctx.check(bool(sites), 'b', 'waiter_notify_site_present', anchor, anchor.where(), '%d Notified creation(s)' % len(sites), '%s no longer creates a Notified' % fn, site_class=fn)
        for b, c in sites:
            n += 1
            got = _outer_fields(arg_desc(F, c, 0))
            why = ''
            if got != {fld}:
                why = 'listens on %s' % sorted(str(g) for g in got)
            elif elem is not None:
                idxs = _index_descs(F, b, c.args[0][1][0], c.bb, term_idx(b, c.bb)) if c.args[0][0] in ('c', 'm') else []
                if not idxs:
                    why = 'element of %s not identified' % fld
                elif elem == 'param':
                    ps = set()
                    for i_ in idxs:
                        here = {x[1] for x in walk(i_) if x[0] == 'param' and 'Dir' in b.locals[x[1]][0]}
                        if not here:
                            why = 'element index is not derived from the direction parameter'
                        ps |= here
                    # the condition is tested for the same direction
                    for ac in b.calls_to('Streams::open', 'Streams::accept'):
                        ad = arg_desc(F, ac, 1)
                        if not (ad[0] == 'param' and {ad[1]} == ps):
                            why = why or 'the condition is tested for another direction than the Notify element'
                elif any(_const_int(i_) != dval.get(elem) for i_ in idxs):
                    why = 'element %s is not Dir::%s' % ([_const_int(i_) for i_ in idxs], elem)
            ctx.check(not why, 'b', 'waiter_listens_on_its_notify', F.root_of(b), c.where(), 'Notified created from shared.%s%s' % (fld, '' if elem is None else '[%s]' % elem),
                      '%s waits on the wrong Notify (%s; its condition is signalled on shared.%s%s): the wake-up for its condition is lost' % (fn, why, fld, '' if elem is None else '[%s]' % elem), site_class=fn)
    ctx.floor('b', 'waiter_notify_sites', n, 16)
    for fn, callee, elem in DIR_FUTURES:
        b = ctx.qfn(fn)
        cs = [c for c in b.calls_to(callee) if c.bb in b.live_blocks()]
        ok = bool(cs) and all(len(c.args) > 3 and all(x[0] == 'agg' and x[2].endswith('Dir::' + elem) for x in flat(arg_desc(F, c, 3))) for c in cs)
        ctx.check(ok, 'b', 'future_polls_its_direction', b, b.where(), '%s(.., Dir::%s)' % (callee, elem), '%s no longer tests the condition of its own direction (Dir::%s): it is registered on one direction and waits for the other' % (fn, elem))


# --------------------------------------------------------------------------
# path search under an assumed call result (P11 PATH-PARTITION over values instead of named locals)
# --------------------------------------------------------------------------

_OKV = ('Ok', 'Continue')


def _aval_place(st, pl):
    v = st.get(pl[0])
    if v is None or not pl[1]:
        return v
    pr = pl[1]
    # payload of an assumed Ok(..) / Continue(..): `(_r as Ok).0`
    if isinstance(v, tuple) and v[0] == 'res' and len(pr) == 2 and isinstance(pr[0], list) and pr[0][0] == 'v' and pr[0][1] in _OKV \
            and isinstance(pr[1], list) and pr[1][0] == 'f' and pr[1][1] == '0':
        return v[1]
    # through a shared reference to a tracked local: `(*_p)`
    if isinstance(v, tuple) and v[0] == 'ref' and pr == ['*']:
        return st.get(v[1])
    return None


def _aval_op(st, op):
    if op[0] in ('c', 'm'):
        return _aval_place(st, op[1])
    if op[0] == 'k' and op[1] == 'int' and len(op) > 3 and op[3] == 'bool':
        return str(op[2]) == '1'
    return None


def _aval_rvalue(st, rv):
    k = rv[0]
    if k == 'use':
        return _aval_op(st, rv[1])
    if k == 'un' and rv[1] == 'Not':
        v = _aval_op(st, rv[2])
        return (not v) if isinstance(v, bool) else None
    if k == 'bin' and rv[1] in ('BitOr', 'BitAnd'):
        x, y = _aval_op(st, rv[2]), _aval_op(st, rv[3])
        dom = rv[1] == 'BitOr'           # absorbing element: true for |, false for &
        if x is dom or y is dom:
            return dom
        if isinstance(x, bool) and isinstance(y, bool):
            return (x or y) if dom else (x and y)
        return None
    if k == 'discr' and not rv[1][1]:
        v = st.get(rv[1][0])
        if isinstance(v, tuple) and v[0] == 'res':
            return ('int', 0)            # Result::Ok = 0, ControlFlow::Continue = 0
        if v == ('res_err',):
            return ('int', 1)            # Result::Err = 1, ControlFlow::Break = 1
        return None
    if k == 'ref' and not rv[1] and not rv[2][1] and st.get(rv[2][0]) is not None:
        return ('ref', rv[2][0])
    return None


def _assumed_result(b, site, payload):
    """abstract value of the result of call `site` under the assumption `it succeeded` (Result: Ok(payload)) / `it returned
    payload` (bool); None when the result is not the whole value of a plain bool / Result local"""
    if site.dst[1] or site.t is None:
        return None
    ty = b.locals[site.dst[0]][0].replace('std::result::', '').replace('core::result::', '').replace('std::io::', '')
    if ty == 'bool':
        return payload if isinstance(payload, bool) else None
    if ty.startswith('Result<'):
        return ('res', payload)
    return None


def _path_assuming_value(b, site, value, goals, avoid, also=None):
    """PATH-PARTITION generalised from named bool locals to values: a block path from call `site` to a block of `goals` that
    avoids `avoid`, on which the call's result has abstract value `value` (True / False / ('res', payload) = Ok(payload) resp.
    Continue(payload) / ('res_err',) = Err(_) resp. Break(_)); None if there is none.  The value is propagated forward through whole-local copies/moves, `!`, `|`, `&`
    (so `k |= x`, `let k = a | b`, `k = a || b` lowered to branches, and `if a { k = true }` are all the same accumulation),
    `Try::branch` (`?`), payload projections `(r as Ok).0`, `is_ok()/is_err()`; a branch whose discriminant is known takes only
    the consistent edge (for an assumed Ok: the Ok edge of `match` / `if let` / `?` / `is_err()`).  Anything else is unknown
    (both edges are followed), locals whose address is taken mutably are never tracked: the search over-approximates the
    feasible paths, never under-approximates them.  `also` = {block of another call: assumed value of its result} extends the
    assumption to calls passed on the way."""
    if value is None:
        return [site.bb]
    mutb = set()
    for blk in b.blocks:
        if blk['c']:
            continue
        for s in blk['s']:
            if s[0] == '=' and ((s[2][0] == 'ref' and s[2][1]) or s[2][0] == 'ptr'):
                mutb.add(s[2][2][0])
    if site.dst[0] in mutb:
        return [site.bb]
    goals, avoid = set(goals), set(avoid)
    start = {site.dst[0]: value}
    seen = set()
    stack = [(site.t, start, (site.bb,))]
    while stack:
        bb, st, path = stack.pop()
        key = (bb, tuple(sorted(st.items(), key=repr)))
        if key in seen or bb in avoid:
            continue
        seen.add(key)
        blk = b.blocks[bb]
        if blk['c']:
            continue
        path = path + (bb,)
        if bb in goals:
            return list(path)
        st = dict(st)
        for s in blk['s']:
            if s[0] == '=':
                dl, dp = s[1]
                if dp:
                    # a store below a tracked local: forget that local
                    st.pop(dl, None)
                    continue
                v = _aval_rvalue(st, s[2])
                if v is not None and dl not in mutb:
                    st[dl] = v
                else:
                    st.pop(dl, None)
            elif s[0] == 'sd':
                st.pop(s[1][0], None)
            elif s[0] == 'dead':
                st.pop(s[1], None)
        # drop references to locals that are no longer tracked
        for l_, v_ in list(st.items()):
            if isinstance(v_, tuple) and v_[0] == 'ref' and v_[1] not in st:
                st.pop(l_)
        t = blk['t']
        succ = list(b.succ[bb])
        if t[0] == 'switch':
            v = _aval_op(st, t[1])
            val = None
            if isinstance(v, bool):
                val = 1 if v else 0
            elif isinstance(v, tuple) and v[0] == 'int':
                val = v[1]
            if val is not None:
                tgt = t[3]
                for x, y in t[2]:
                    if int(x) == val:
                        tgt = y
                succ = [tgt]
        elif t[0] == 'call':
            c = t[1]
            f = c['f'] or c['df'] or ''
            a0 = _aval_op(st, c['args'][0]) if c['args'] else None
            nv = None
            if isinstance(a0, tuple) and a0[0] in ('res', 'res_err') and (c.get('df') or '').endswith('Try::branch'):
                nv = a0
            elif isinstance(a0, tuple) and a0[0] == 'ref' and isinstance(st.get(a0[1]), tuple) and st[a0[1]][0] in ('res', 'res_err') and short(f) in ('Result::is_ok', 'Result::is_err'):
                nv = (short(f) == 'Result::is_ok') == (st[a0[1]][0] == 'res')
            for a in c['args']:
                # a tracked value moved into a call is gone
                if a[0] == 'm' and not a[1][1]:
                    st.pop(a[1][0], None)
            if also and bb in also:
                nv = also[bb]
            dl, dp = c['dst']
            if not dp and nv is not None and dl not in mutb:
                st[dl] = nv
            else:
                st.pop(dl, None)
            succ = [c['t']] if c['t'] is not None else []
        for s2 in succ:
            stack.append((s2, st, path))
    return None


def _inlined_driver_wakes(F, b):
    """State::wake() stated structurally: `the waker taken out of self.driver, if any, is woken`.  Blocks of
    `Option::take(&mut <state>.driver)` whose Some payload is passed to Waker::wake on every path from the Some edge of the
    test of its result (`if let Some(w) = self.driver.take() { w.wake() }`, `match`, `is_some()` + unwrap)."""
    out = set()
    live = b.live_blocks()
    rets = set(b.return_blocks())
    for tk in b.calls_to('Option::take'):
        if tk.bb not in live or _outer_fields(arg_desc(F, tk, 0)) != {'driver'}:
            continue
        wk = {c.bb for c in b.calls_to('Waker::wake') if c.args and contains_site(arg_desc(F, c, 0), tk)}
        if not wk:
            continue
        some_edges = []
        for br in branches(F, b):
            for t, cond in _edge_conds(br):
                if (cond[0] == 'discr' and is_site(cond[1], tk) and cond[2] == 1) or (cond[0] == 'some' and is_site(cond[1], tk) and cond[2] is True):
                    some_edges.append(t)
        if some_edges and all(path_avoiding(b, [t], rets | {tk.bb}, wk) is None for t in some_edges):
            out.add(tk.bb)
    return out


def _driver_wake_blocks(F, b):
    """blocks that wake the connection driver: a call of State::wake(), or its body in place"""
    return {c.bb for c in b.calls_to('connection::State::wake', 'State::wake')} | _inlined_driver_wakes(F, b)


WAKE_TABLE = [
    # (quinn fn, proto callee(s), needs wake on the non-error path)
    ('SendStream::finish', ['SendStream::finish']),
    ('SendStream::reset', ['SendStream::reset']),
    ('SendStream::execute_poll', ['FnOnce::call_once']),
    ('RecvStream::stop', ['RecvStream::stop']),
    ('Connection::set_max_concurrent_uni_streams', ['Connection::set_max_concurrent_streams']),
    ('Connection::set_max_concurrent_bi_streams', ['Connection::set_max_concurrent_streams']),
    ('Connection::set_receive_window', ['Connection::set_receive_window']),
    ('Connection::send_datagram', ['Datagrams::send']),
    ('<SendDatagram as Future>::poll', ['Datagrams::send']),
    ('connection::poll_accept', ['Streams::accept']),
    ('State::close', ['quinn_proto::Connection::close']),
]


def rule_c(ctx):
    F = ctx.facts
    n = 0
    for fn, protos in WAKE_TABLE:
        b = ctx.qfn(fn)
        sites = [c for c in b.calls() if c.is_(*protos) and c.bb in b.live_blocks()]
        if fn == 'SendStream::execute_poll':
            sites = [c for c in b.calls() if c.k in ('closurecall', 'unresolved', 'item') and short(c.f).endswith('call_once')]
        wakes = _driver_wake_blocks(F, b)
        ctx.check(bool(sites) and bool(wakes), 'c', 'wake_site_present', b, b.where(), '%d proto call(s), %d wake()' % (len(sites), len(wakes)), '%s no longer wakes the driver after %s' % (fn, protos))
        for s in sites:
            n += 1
            # success edge: for Result/Option returning calls, the Ok/Some edge; error/None exits are exempt
            exempt = {c.bb for c in b.calls() if c.is_('FromResidual::from_residual')}
            starts = b.succ[s.bb]
            avoid = wakes | exempt
            # follow only the success side of the first branch on the call result
            for br in branches(F, b):
                inner, neg = peel_not(br.desc)
                if inner[0] == 'discr' and contains_site(inner, s):
                    dsc = inner[1]
                    # Option: Some=1 ; Result: Ok=0 ; ControlFlow: Continue=0
                    is_opt = any(x[0] == 'call' and (x[1].endswith('::accept') or x[1].endswith('::recv')) for x in walk(dsc)) and not any(x[0] == 'call' and 'branch' in x[1] for x in walk(dsc))
                    good = br.target(1) if is_opt else br.target(0)
                    starts = [good]
                    break
            p = path_avoiding(b, starts, b.return_blocks(), avoid)
            # paths that end in an Err/None construction are not "queued work" paths
            if p is not None:
                d = describer(F, b)
                rb = p[-1]
                rv = d.place([0, []], rb, term_idx(b, rb))
                if all((y[0] == 'agg' and (y[2].endswith('Err') or y[2].endswith('None'))) or (y[0] == 'agg' and y[2].endswith('Ready') and any(z[0] == 'agg' and z[2].endswith('Err') for z in walk(y))) or y[0] == 'agg' and y[2].endswith('Pending') or (y[0] == 'agg' and y[2].endswith('Ok') and fn == 'SendStream::finish') for y in flat(rv)):
                    # error / pending exits (and finish() on a stopped stream, which queues nothing) need no wake
                    only_err = True
                    # make sure the *pure success* return is covered: check path to returns avoiding wakes AND error constructions
                    errs = {c2.bb for c2 in constructions(F, 'Result', 'Err', crate='quinn') if c2.body.id == b.id} | {c2.bb for c2 in constructions(F, 'Poll', 'Pending', crate='quinn') if c2.body.id == b.id}
                    p = path_avoiding(b, starts, b.return_blocks(), avoid | errs)
                    if p is not None and fn == 'SendStream::finish':
                        p = None if len(wakes) >= 1 and any(w in b.reachable_from(starts[0]) for w in wakes) else p
            if p is not None and _assumed_result(b, s, None) is not None:
                # the call returns a Result: only paths consistent with Ok(_) at every test of that result count, however the
                # test is written (`?`, `match`, `if let Err`, `is_err()` + `return r`)
                p = _path_assuming(F, b, s, 'ok', None, avoid)
            ctx.check(p is None, 'c', 'wake_after_mutation', b, s.where(), 'every success path after %s passes State::wake()' % short(s.f),
                      '%s can return successfully after %s without waking the connection driver (queued work is not transmitted): %s' % (fn, short(s.f), fmt_path(b, p)), site_class=short(s.f))
    ctx.floor('c', 'mutation_sites', n, 11)
    # finalize().should_transmit() -> wake in poll_read_generic
    pr = ctx.qfn('RecvStream::poll_read_generic')
    fz = pr.calls_to('Chunks::finalize')
    wk = _driver_wake_blocks(F, pr)
    ok = bool(fz) and bool(wk)
    for f in fz:
        for br in branches(F, pr):
            if D.has_call(br.desc, 'ShouldTransmit::should_transmit') and contains_site(br.desc, f):
                if not any(w in pr.reachable_from(br.target(1), avoid=[br.bb]) for w in wk):
                    ok = False
    ctx.check(ok, 'c', 'read_credit_wakes_driver', pr, pr.where(), 'finalize().should_transmit() -> wake()', 'flow-control credit released by a read no longer wakes the driver')


def _stopped_waiter_wakes(F, b, idd):
    """blocks of `b` that complete the pending stopped() futures of stream `idd` (descriptor of the stream id): the entry of that
    stream is removed from State::stopped and, if there was one, its Notify is notified: `wake_stream_notify(id, &mut <state>.stopped)`,
    or the same written in place (`HashMap::remove(&mut <state>.stopped, &id)` whose Some payload reaches notify_waiters on every path)"""
    out = set()
    live = b.live_blocks()
    for c in b.calls():
        if c.bb not in live or len(c.args) < 2:
            continue
        if short(c.f).endswith('wake_stream_notify'):
            if arg_desc(F, c, 0) == idd and _outer_fields(arg_desc(F, c, 1)) == {'stopped'}:
                out.add(c.bb)
        elif c.is_('HashMap::remove', 'HashMap::remove_entry'):
            if _outer_fields(arg_desc(F, c, 0)) == {'stopped'} and arg_desc(F, c, 1) == idd and _removed_entry_woken(F, b, c, 'Notify::notify_waiters'):
                out.add(c.bb)
    return out


def rule_c_reset_completes_stopped(ctx):
    """a local reset closes the stream for the application at once (proto SendStream::stopped() reports ClosedStream from then on) and
    no proto event will ever report it: quinn SendStream::reset() itself must make the pending stopped() futures of that stream
    re-check.  On every path from the proto reset() to the return that is consistent with reset() == Ok(_), the entry of the
    stream that was reset (the id given to Connection::send_stream() for that very call) is removed from State::stopped and notified."""
    F = ctx.facts
    b = ctx.qfn('SendStream::reset')
    live = b.live_blocks()
    sites = [c for c in b.calls_to('quinn_proto::SendStream::reset') if c.bb in live]
    ctx.floor('c', 'local_reset_sites', len(sites), 1)
    for s in sites:
        recv = flat(arg_desc(F, s, 0)) if s.args else []
        ids = [x[3][1] for x in recv if x[0] == 'call' and x[1].endswith('Connection::send_stream') and len(x[3]) > 1]
        same = bool(ids) and len(ids) == len(recv) and all(i_ == ids[0] for i_ in ids)
        why = ''
        if not same:
            why = 'the stream that is reset is not identified (receiver is not Connection::send_stream(id))'
        else:
            wakes = _stopped_waiter_wakes(F, b, ids[0])
            if not wakes:
                why = 'nothing removes and notifies the entry of that stream in State::stopped'
            else:
                p = _path_assuming(F, b, s, 'ok', None, wakes)
                if p is not None:
                    why = 'a path from a successful reset() to the return avoids it: %s' % fmt_path(b, p)
        ctx.check(not why, 'c', 'reset_completes_stopped_waiters', b, s.where(), 'reset() == Ok -> stopped.remove(&id) + notify_waiters() on every path, id = the stream that was reset',
                  'SendStream::reset() does not wake the stopped() futures pending on the stream it reset (no event reports a local reset; they hang until the connection ends): %s' % why, site_class='SendStream::reset')


def _arm_calls(F, b, br, value, stop_blocks):
    t = br.target(value)
    reach = b.reachable_from(t, avoid=[br.bb] + list(stop_blocks))
    out = []
    for c in b.calls():
        if c.bb in reach and not is_noise(c):
            out.append(c)
    return out


def _const_int(d):
    """integer value of a constant descriptor (`Dir::Uni as usize` arrives as `1 + 0`), else None"""
    if d[0] == 'const' and d[1] == 'int':
        try:
            return int(str(d[2]).split('_')[0])
        except ValueError:
            return None
    if d[0] == 'bin' and d[1] in ('Add', 'Sub', 'Mul'):
        x, y = _const_int(d[2]), _const_int(d[3])
        if x is None or y is None:
            return None
        return x + y if d[1] == 'Add' else (x - y if d[1] == 'Sub' else x * y)
    return None


def _index_descs(F, b, local, bb, idx, depth=0):
    """descriptors of the array indices applied on the borrow chain that produces reference local `local`"""
    d = describer(F, b)
    out = []
    if depth > 6:
        return out
    for df in d.reaching_defs(local, bb, idx):
        pl = None
        if df[0] == 'stmt':
            rv = df[3]
            if rv[0] in ('ref', 'ptr'):
                pl = rv[2]
            elif rv[0] in ('use', 'cast') and (rv[1] if rv[0] == 'use' else rv[2])[0] in ('c', 'm'):
                pl = (rv[1] if rv[0] == 'use' else rv[2])[1]
            at = (df[1], df[2])
        elif df[0] == 'call' and df[2].args and df[2].args[0][0] in ('c', 'm') and D._is_transparent(short(df[2].f), df[2].f):
            pl = df[2].args[0][1]
            at = (df[2].bb, term_idx(b, df[2].bb))
        if pl is None:
            continue
        for e in pl[1]:
            if isinstance(e, list) and e[0] == 'i':
                out.append(d.place([e[1], []], at[0], at[1]))
            elif isinstance(e, list) and e[0] == 'ci':
                out.append(('const', 'int', e[1], ''))
        out += _index_descs(F, b, pl[0], at[0], at[1], depth + 1)
    return out


def _notify_cover(F, c, fld):
    """what a `notify_waiters()` call covers of Notify field `fld` of Shared: None (another field), 'all' (the scalar
    field, or every element: no index on the borrow chain), a set of constant indices, or ('var', index descriptors)"""
    if not (c.is_('Notify::notify_waiters') and c.args and D.has_field(arg_desc(F, c, 0), fld)):
        return None
    if c.args[0][0] not in ('c', 'm'):
        return 'all'
    idxs = _index_descs(F, c.body, c.args[0][1][0], c.bb, term_idx(c.body, c.bb))
    if not idxs:
        return 'all'
    vals = [_const_int(x) for x in idxs]
    if all(v is not None for v in vals):
        return set(vals)
    return ('var', idxs)


def _array_len(ty):
    import re
    m = re.match(r'^\[.*;\s*(\d+)(?:_usize)?\]$', ty.strip())
    return int(m.group(1)) if m else None


def _is_variant_field(x, variant, field):
    return x[0] == 'field' and x[2] == field and x[1][0] == 'variant' and x[1][2] == variant


STREAM_WAKE_EFFECT = {'wake_stream': 'Waker::wake', 'wake_stream_notify': 'Notify::notify_waiters'}


def _inlined_stream_wake(F, b, c, helper, fld, event, stop):
    """wake_stream(id, &mut self.<fld>) / wake_stream_notify(id, &mut self.<fld>) stated structurally: `the entry of the event's
    stream is removed from self.<fld> and, if there was one, woken / notified`.  `c` is `HashMap::remove(&mut self.<fld>, &id)`
    with `id` the stream id of StreamEvent::<event>, and on the Some edge of the test of its result every path (to the next
    event / the return) passes Waker::wake resp. Notify::notify_waiters on the removed value."""
    if not (c.is_('HashMap::remove') and len(c.args) > 1 and _outer_fields(arg_desc(F, c, 0)) == {fld}):
        return False
    if not any(_is_variant_field(x, event, 'id') for x in walk(arg_desc(F, c, 1))):
        return False
    return _removed_entry_woken(F, b, c, STREAM_WAKE_EFFECT[helper], stop)


def _stream_wake_helper_ok(F, h, effect):
    """body of wake_stream / wake_stream_notify (the call sites are accepted by name): on every path the entry of the StreamId
    parameter is removed from the map parameter and, if there was one, woken / notified"""
    for c in h.calls_to('HashMap::remove', 'HashMap::remove_entry'):
        if c.bb not in h.live_blocks() or len(c.args) < 2:
            continue
        m, k = arg_desc(F, c, 0), arg_desc(F, c, 1)
        if m[0] == 'param' and k[0] == 'param' and 'StreamId' in h.locals[k[1]][0] and _removed_entry_woken(F, h, c, effect) \
                and path_avoiding(h, [0], h.return_blocks(), {c.bb}) is None:
            return True
    return False


def _removed_entry_woken(F, b, c, effect, stop=()):
    """`if let Some(x) = <map>.remove(..) { x.<effect>() }` stated structurally for the remove call `c`: the result of `c` is
    tested and on the Some edge of every such test every path (to a return / a block of `stop` / back to `c`) passes a call of
    `effect` (Waker::wake / Notify::notify_waiters) on a value derived from the removed one (`if let`, `match`, is_some() + unwrap)."""
    eff = {e.bb for e in b.calls_to(effect) if e.args and contains_site(arg_desc(F, e, 0), c)}
    if not eff:
        return False
    # edges consistent with `the result of c is Some(_)` at every test of that result (the drop elaboration of the emptied
    # Option tests it again after the effect)
    some_edges = {}
    for br in branches(F, b):
        conds = [(t, cond) for t, cond in _edge_conds(br) if cond[0] in ('discr', 'some') and is_site(cond[1], c)]
        if not conds:
            continue
        explicit = [cond[2] for t, cond in conds if cond[0] == 'discr']
        some_edges[br.bb] = {t for t, cond in conds if (cond[0] == 'discr' and (cond[2] == 1 or (cond[2] is None and 1 not in explicit))) or (cond[0] == 'some' and cond[2] is True)}
    if not any(some_edges.values()):
        return False
    goals = set(b.return_blocks()) | set(stop) | {c.bb}
    seen = set()
    stack = list(b.succ[c.bb])
    while stack:
        bb = stack.pop()
        if bb in seen or bb in eff:
            continue
        seen.add(bb)
        if bb in goals:
            return False
        stack.extend(some_edges[bb] if bb in some_edges else b.succ[bb])
    return True


def rule_d(ctx):
    F = ctx.facts
    fa = ctx.qfn('State::forward_app_events')
    poll = fa.calls_to('quinn_proto::Connection::poll')
    stop = [c.bb for c in poll]
    sh = F.adt('connection::Shared')
    shf = {f[0]: f[1] for f in sh['variants'][0]['fields']}
    # find the dispatch on the StreamEvent discriminant
    want = {
        'Writable': [('wake_stream', 'blocked_writers')],
        'Readable': [('wake_stream', 'blocked_readers')],
        'Finished': [('wake_stream_notify', 'stopped')],
        'Stopped': [('wake_stream_notify', 'stopped'), ('wake_stream', 'blocked_writers')],
    }
    # StreamEvent / Event variant discriminants (from the proto facts; an unrelated type of the same name elsewhere is not an anchor)
    sev = [a for p, a in F.adts.items() if a.get('crate') == 'quinn_proto' and p.endswith('::StreamEvent')]
    eev = [a for p, a in F.adts.items() if a.get('crate') == 'quinn_proto' and p.endswith('connection::Event')]
    ctx.check(len(sev) == 1 and len(eev) == 1, 'd', 'stream_event_adt', 'StreamEvent', '', 'found', 'quinn_proto StreamEvent / Event ADT not found')
    if len(sev) != 1 or len(eev) != 1:
        return
    vidx = {v['name']: int(v.get('discr', i)) for i, v in enumerate(sev[0]['variants'])}
    eidx = {v['name']: int(v.get('discr', i)) for i, v in enumerate(eev[0]['variants'])}
    disp = [br for br in branches(F, fa) if br.desc[0] == 'discr' and _is_variant_field(br.desc[1], 'Stream', '0')]
    ctx.check(bool(disp), 'd', 'stream_event_dispatch', fa, fa.where(), 'dispatch found', 'cannot locate the StreamEvent dispatch')
    for name, wants in want.items():
        got = set()
        for br in disp:
            if vidx[name] in [v for v, _ in br.edges]:
                for c in _arm_calls(F, fa, br, vidx[name], stop + [x.bb for x in disp if x is not br]):
                    for wn, fld in wants:
                        if short(c.f).endswith(wn) and D.has_field(arg_desc(F, c, 1), fld):
                            got.add((wn, fld))
                        elif _inlined_stream_wake(F, fa, c, wn, fld, name, stop):
                            got.add((wn, fld))
        missing = [w for w in wants if w not in got]
        ctx.check(not missing, 'd', 'event_wakes_its_waiters_' + name, fa, fa.where(), '%s -> %s' % (name, wants),
                  'StreamEvent::%s no longer wakes %s: tasks parked on that condition hang' % (name, missing))
    # the helpers accepted by name above (and in c/reset_completes_stopped_waiters) do what their call sites are taken to mean
    for helper, eff in sorted(STREAM_WAKE_EFFECT.items()):
        for h in F.fns('connection::' + helper):
            if h.crate == 'quinn' and h.kind == 'fn':
                ctx.check(_stream_wake_helper_ok(F, h, eff), 'd', 'stream_wake_helper_' + helper, h, h.where(), 'map.remove(&id) -> Some(x) -> %s(x) on every path' % eff,
                          '%s() no longer removes and wakes the entry of its stream: every waiter class woken through it hangs' % helper)
    # per-direction Notify arrays: on the arm of StreamEvent::<E> (and, when the arm tests `dir`, on the edge of each Dir value)
    # the element of that direction is notified (constant index = that Dir, an index computed from the event's `dir`, or all elements)
    for ev, fld in (('Opened', 'stream_incoming'), ('Available', 'stream_budget_available')):
        n_arr = _array_len(shf.get(fld, '')) or 0
        missing = []
        for v in range(n_arr):
            ok = False
            for br in disp:
                if vidx[ev] not in [x for x, _ in br.edges]:
                    continue
                reach = fa.reachable_from(br.target(vidx[ev]), avoid=[br.bb] + stop)
                for b2 in branches(F, fa):
                    if b2.bb in reach and b2.desc[0] == 'discr' and _is_variant_field(b2.desc[1], ev, 'dir'):
                        reach = fa.reachable_from(b2.target(v), avoid=[b2.bb, br.bb] + stop)
                        break
                for c in fa.calls():
                    if c.bb not in reach:
                        continue
                    cov = _notify_cover(F, c, fld)
                    if cov == 'all' or (isinstance(cov, set) and v in cov) or \
                            (isinstance(cov, tuple) and any(_is_variant_field(x, ev, 'dir') for i_ in cov[1] for x in walk(i_))):
                        ok = True
            if not ok:
                missing.append(v)
        ctx.check(n_arr > 0 and not missing, 'd', 'event_notifies_' + fld, fa, fa.where(), 'StreamEvent::%s{dir} -> shared.%s[dir].notify_waiters() for each of %d directions' % (ev, fld, n_arr),
                  'forward_app_events no longer notifies shared.%s[%s] on StreamEvent::%s of that direction: tasks waiting for that direction hang' % (fld, missing, ev))
    # Notify-based events: the notification is on the arm of its own event
    outer = [br for br in branches(F, fa) if disp and br.desc == ('discr', disp[0].desc[1][1][1])]
    ctx.check(len(outer) == 1, 'd', 'event_dispatch', fa, fa.where(), 'dispatch on the Event discriminant found', 'cannot locate the dispatch on quinn_proto::Event')
    for ev, fld in (('DatagramReceived', 'datagram_received'), ('DatagramsUnblocked', 'datagrams_unblocked'), ('Connected', 'connected'), ('HandshakeConfirmed', 'handshake_confirmed')):
        ok = False
        for br in outer:
            if eidx.get(ev) in [x for x, _ in br.edges]:
                ok = any(_notify_cover(F, c, fld) == 'all' for c in _arm_calls(F, fa, br, eidx[ev], stop))
        ctx.check(ok, 'd', 'event_notifies_' + fld, fa, fa.where(), 'Event::%s -> shared.%s.notify_waiters()' % (ev, fld), 'forward_app_events no longer notifies shared.%s on Event::%s' % (fld, ev))
    ok = False
    for br in outer:
        if eidx.get('ConnectionLost') in [x for x, _ in br.edges]:
            ok = any(c.is_('connection::State::terminate', 'State::terminate') for c in _arm_calls(F, fa, br, eidx['ConnectionLost'], stop))
    ctx.check(ok, 'd', 'connection_lost_terminates', fa, fa.where(), 'ConnectionLost -> terminate', 'ConnectionLost no longer terminates the async state')
    # terminate covers every Notify of Shared (every element of the per-direction arrays) and every waker map of State
    tm = ctx.qfn('connection::State::terminate')
    nfields = 0
    for f in sh['variants'][0]['fields']:
        if 'Notify' in f[1]:
            nfields += 1
            n_arr = _array_len(f[1])
            covs = [x for x in (_notify_cover(F, c, f[0]) for c in tm.calls() if c.bb in tm.live_blocks()) if x is not None]
            # a computed index covers every element only inside a loop
            loopy = any(isinstance(_notify_cover(F, c, f[0]), tuple) and c.bb in tm.reachable_strict(c.bb) for c in tm.calls())
            if n_arr is None:
                ok = bool(covs)
                missing = []
            else:
                have = set()
                for x in covs:
                    if isinstance(x, set):
                        have |= x
                missing = [] if ('all' in covs or loopy) else [v for v in range(n_arr) if v not in have]
                ok = bool(covs) and not missing
            ctx.check(ok, 'd', 'terminate_notifies_' + f[0], tm, tm.where(), 'shared.%s notified%s' % (f[0], '' if n_arr is None else ' (all %d elements)' % n_arr),
                      'terminate() does not notify shared.%s%s: waiters on it hang when the connection is lost' % (f[0], missing if missing else ''))
    ctx.floor('d', 'shared_notify_fields', nfields, 7)
    for fld, fn in (('blocked_writers', 'wake_all'), ('blocked_readers', 'wake_all'), ('stopped', 'wake_all_notify')):
        ok = any(short(c.f).endswith(fn) and D.has_field(arg_desc(F, c, 0), fld) for c in tm.calls())
        ctx.check(ok, 'd', 'terminate_drains_' + fld, tm, tm.where(), '%s(&mut self.%s)' % (fn, fld), 'terminate() does not wake the tasks registered in %s' % fld)
    # the error observed by the woken tasks: every store to self.error in terminate() stores Some(<the ConnectionError parameter>)
    eparams = [i for i in range(1, tm.argc + 1) if 'ConnectionError' in tm.locals[i][0]]
    d = describer(F, tm)

    def _is_some_reason(x):
        return x[0] == 'agg' and x[2].endswith('::Some') and len(x[3]) == 1 and x[3][0][0] == 'param' and x[3][0][1] in eparams

    stores = []
    for w in field_writes(F, 'connection::State', 'error', crate='quinn'):
        if w.body.id != tm.id:
            continue
        if w.kind == 'assign' and w.rv and w.rv[0] != 'sd':
            stores.append(all(_is_some_reason(x) for x in flat(d.rvalue(w.rv, w.bb, w.idx, 0))))
        elif w.kind == 'mutborrow' and w.call is not None and w.call.is_('Option::replace', 'Option::insert', 'Option::get_or_insert'):
            a1 = arg_desc(F, w.call, 1)
            stores.append(a1[0] == 'param' and a1[1] in eparams)
        elif w.kind == 'mutborrow' and w.call is not None and (is_noise(w.call) or w.call.is_('Option::is_some', 'Option::is_none', 'Option::as_ref')):
            continue
        else:
            stores.append(False)
    ctx.check(bool(stores) and all(stores), 'd', 'terminate_records_error', tm, tm.where(), 'self.error = Some(reason)', 'terminate() no longer records the error woken tasks will observe (self.error is not set to Some(reason))')


def _cond_of(desc, raw):
    """canonical condition that holds when the bool descriptor `desc` evaluates to `raw` (see _edge_conds)"""
    inner, neg = peel_not(desc)
    truth = raw != neg
    rel = relation_on(desc, raw)
    if rel is not None:
        return ('rel', rel)
    if inner[0] == 'call' and inner[1] in ('Option::is_some', 'Option::is_none') and inner[3]:
        return ('some', inner[3][0], truth == (inner[1] == 'Option::is_some'))
    if inner[0] == 'call' and inner[1] in ('Result::is_err', 'Result::is_ok') and inner[3]:
        return ('err', inner[3][0], truth == (inner[1] == 'Result::is_err'))
    return ('bool', inner, truth)


def _edge_conds(br):
    """canonical condition holding on each edge of a branch: [(target, cond)] with cond one of
    ('some', X, bool) / ('err', X, bool)  Option::is_some|is_none / Result::is_err|is_ok of X,
    ('rel', (op, a, b))                    comparison that holds on the edge,
    ('bool', X, bool)                      any other bool,
    ('discr', X, value|None)               enum discriminant (None = the otherwise edge)"""
    out = []
    inner, neg = peel_not(br.desc)
    for v, t in br.edges:
        if inner[0] == 'discr':
            out.append((t, ('discr', inner[1], v)))
            continue
        out.append((t, _cond_of(br.desc, (v is None) or v != 0)))
    return out


def _controlling_edge(F, b, bb):
    """(Branch, cond) of the one branch edge through which block `bb` is entered: bb and the straight-line blocks in front of it
    have a single live predecessor each, up to a SwitchInt with exactly one edge into the chain; None otherwise"""
    live = b.live_blocks()
    brs = {br.bb: br for br in branches(F, b)}
    cur, seen = bb, set()
    while cur not in seen:
        seen.add(cur)
        preds = [p for p in b.pred[cur] if p in live and not b.blocks[p]['c']]
        if len(preds) != 1:
            return None
        p = preds[0]
        if b.blocks[p]['t'][0] == 'switch':
            br = brs.get(p)
            hits = [c for t, c in _edge_conds(br) if t == cur] if br is not None else []
            return (br, hits[0]) if len(hits) == 1 else None
        if len([s_ for s_ in b.succ[p] if s_ in live and not b.blocks[s_]['c']]) != 1:
            return None
        cur = p
    return None


def _bool_causes(F, b, op, bb, idx, want, depth=0):
    """a bool local assigned on several paths is the VALUE of a short-circuit expression (`let live = a && !(b && c); if live {..}`
    is the same test as `if a && !(b && c) {..}`): the conditions [(Branch, cond)] under which the bool operand `op` read at
    statement idx of bb equals `want`, read off its reaching definitions: a constant equal to `want` holds under the condition
    of the branch edge that leads to the assignment, a copy / negation is followed to its source, any other definition (call
    result, comparison, field read) is itself the condition.  None when some definition has another shape (the caller then keeps
    the opaque condition)."""
    if depth > 8 or op[0] not in ('m', 'c') or op[1][1]:
        return None
    d = describer(F, b)
    out = []
    for df in d.reaching_defs(op[1][0], bb, idx):
        if df[0] == 'call':
            desc = d.call_desc(df[2], 0)
            if peel_not(desc)[0][0] == 'phi':
                return None
            out.append((None, _cond_of(desc, want)))
            continue
        if df[0] != 'stmt':
            return None
        _, dbb, didx, rv = df
        if rv[0] == 'use' and rv[1][0] == 'k':
            k = rv[1]
            if k[1] != 'int' or k[3] != 'bool':
                return None
            if (int(k[2]) != 0) == want:
                ce = _controlling_edge(F, b, dbb)
                if ce is None:
                    return None
                out.extend(_expand_bool(F, b, ce[0], ce[1], depth + 1))
            continue
        if rv[0] == 'use' and rv[1][0] in ('m', 'c') and not rv[1][1][1]:
            sub = _bool_causes(F, b, rv[1], dbb, didx, want, depth + 1)
        elif rv[0] == 'un' and rv[1] == 'Not' and rv[2][0] in ('m', 'c') and not rv[2][1][1]:
            sub = _bool_causes(F, b, rv[2], dbb, didx, not want, depth + 1)
        else:
            desc = d.rvalue(rv, dbb, didx, 0)
            if peel_not(desc)[0][0] == 'phi':
                return None
            sub = [(None, _cond_of(desc, want))]
        if sub is None:
            return None
        out.extend(sub)
    return out


def _expand_bool(F, b, br, cond, depth=0):
    """[(Branch, cond)]: the edge condition itself, or, when the branch tests a bool local holding a short-circuit value, the
    conditions under which that value sends control along this edge (_bool_causes)"""
    if cond[0] == 'bool' and cond[1][0] == 'phi' and depth < 8:
        t = b.blocks[br.bb]['t']
        inner, neg = peel_not(br.desc)
        sub = _bool_causes(F, b, t[1], br.bb, term_idx(b, br.bb), cond[2] != neg, depth + 1)
        if sub is not None:
            return [(x if x is not None else br, c) for x, c in sub]
    return [(br, cond)]


def _skipping(F, b, site_bb):
    """(Branch, cond) for every edge of a branch dominating the site from which the site can no longer be reached"""
    res = []
    for br in branches(F, b):
        if br.bb == site_bb or not b.dominates(br.bb, site_bb):
            continue
        for t, cond in _edge_conds(br):
            if site_bb not in b.reachable_from(t, avoid=[br.bb]):
                res.extend(_expand_bool(F, b, br, cond))
    return res


def _is_field_of_lock(x, name):
    return x[0] == 'field' and x[2] == name


def _last_handle_rel(rel):
    """relation holding on the edge that SKIPS the close: more than one handle existed before the decrement:
    fetch_sub(1) > 1, >= 2, != 1"""
    op, a_, b_ = rel
    fs = lambda x: x[0] == 'call' and x[1].endswith('::fetch_sub') and D.has_field(x, 'ref_count') and len(x[3]) > 1 and _const_int(x[3][1]) == 1
    k = lambda x: _const_int(x) if x[0] == 'const' else None
    return (op == 'Lt' and k(a_) == 1 and fs(b_)) or (op == 'Le' and k(a_) == 2 and fs(b_)) or (op == 'Ne' and ((k(a_) == 1 and fs(b_)) or (k(b_) == 1 and fs(a_))))


def _path_assuming(F, b, site, assume, stopped, avoid):
    """a path from the Result-returning call `site` to a return avoiding `avoid`, taking at every branch that tests the result of
    that call only the edges consistent with `assume`: 'ok' = Ok(_), 'stopped' = Err(FinishError::Stopped(_)) (`stopped` is that
    variant's discriminant); None if there is none"""
    brs = {br.bb: br for br in branches(F, b)}
    seen, prev = set(), {}
    stack = [(s2, site.bb) for s2 in b.succ[site.bb]]
    rets = set(b.return_blocks())
    while stack:
        bb, frm = stack.pop()
        if bb in seen or bb in avoid or bb == site.bb:
            continue
        seen.add(bb)
        prev[bb] = frm
        if bb in rets:
            path = [bb]
            while path[-1] != site.bb:
                path.append(prev[path[-1]])
            return list(reversed(path))
        succ = list(b.succ[bb])
        br = brs.get(bb)
        if br is not None:
            keep = None
            inner, neg = peel_not(br.desc)
            if inner[0] == 'discr' and is_site(inner[1], site):
                keep = {br.target(0 if assume == 'ok' else 1)}           # Result: Ok = 0, Err = 1
            elif inner[0] == 'discr' and _is_variant_field(inner[1], 'Err', '0') and is_site(inner[1][1][1], site):
                keep = set() if assume == 'ok' else {br.target(stopped)}
            else:
                for t, cond in _edge_conds(br):
                    if cond[0] == 'err' and is_site(cond[1], site):
                        keep = (keep or set()) | ({t} if cond[2] is (assume != 'ok') else set())
            if keep is not None:
                succ = [x for x in succ if x in keep]
        for s2 in succ:
            stack.append((s2, bb))
    return None


# State::implicit_close(shared) stated structurally: `State::close(code, reason, shared) is called` (the one-line helper only
# supplies the code 0 and the empty reason): the helper, or the close it performs written in the drop itself
IMPLICIT_CLOSE = ['State::implicit_close', 'connection::State::close']


def rule_e(ctx):
    F = ctx.facts
    conn_lost = lambda c: c[0] == 'some' and _is_field_of_lock(c[1], 'error') and c[2] is True or (c[0] == 'discr' and _is_field_of_lock(c[1], 'error') and c[2] == 1)
    zero_rtt_rejected = lambda c: c[0] == 'err' and D.has_call(c[1], 'State::check_0rtt') and c[2] is True or (c[0] == 'discr' and c[1][0] == 'call' and c[1][1].endswith('State::check_0rtt') and c[2] == 1)
    table = [
        ('<send_stream::SendStream as Drop>::drop', ['quinn_proto::SendStream::finish', 'SendStream::finish'], 'implicit finish',
         [conn_lost, zero_rtt_rejected], 'the connection is lost / 0-RTT was rejected'),
        ('<recv_stream::RecvStream as Drop>::drop', ['quinn_proto::RecvStream::stop', 'RecvStream::stop'], 'implicit stop',
         [conn_lost, zero_rtt_rejected, lambda c: c[0] == 'bool' and c[1][0] == 'field' and c[1][2] == 'all_data_read' and c[1][1][0] == 'param' and c[2] is True], 'all data was read / the connection is lost / 0-RTT was rejected'),
        ('<connection::ConnectionRef as Drop>::drop', IMPLICIT_CLOSE, 'implicit close on last handle',
         [lambda c: c[0] == 'rel' and any(x[0] == 'call' and x[1].endswith('::fetch_sub') for x in walk(c[1][1])) or c[0] == 'rel' and any(x[0] == 'call' and x[1].endswith('::fetch_sub') for x in walk(c[1][2])),
          lambda c: c[0] == 'bool' and c[1][0] == 'call' and c[1][1].endswith('Connection::is_closed') and c[2] is True], 'other handles remain / the connection is already closed'),
        ('<connection::State as Drop>::drop', ['EndpointEvent::drained'], 'endpoint notified', None, ''),
        ('<incoming::Incoming as Drop>::drop', ['Endpoint::refuse', 'EndpointInner::refuse'], 'implicit refuse',
         [lambda c: c[0] == 'discr' and c[1][0] == 'call' and c[1][1] == 'Option::take' and c[2] in (0, None),
          lambda c: c[0] == 'some' and c[1][0] == 'call' and c[1][1] == 'Option::take' and c[2] is False], 'the Incoming was already consumed (state taken)'),
    ]
    for fn, pats, what, allowed, allowed_txt in table:
        b = ctx.qfn(fn)
        reaches = may_reach(F, b, pats, 2)
        bad = []
        if reaches and allowed is not None:
            # the only conditions under which the drop may skip the action are the stated ones, each on its stated edge
            sites = sorted(bb for bb in may_sites(F, b, pats, 2) if bb in b.live_blocks())
            reaches = bool(sites)
            for sb in sites:
                for br, cond in _skipping(F, b, sb):
                    if not any(al(cond) for al in allowed):
                        bad.append('%s %s at %s' % (cond[0], D.render(cond[1] if cond[0] != 'rel' else ('bin',) + tuple(cond[1]))[:70] + ('=%s' % (cond[2],) if cond[0] != 'rel' else ''), br.where()))
        ctx.check(reaches and not bad, 'e', 'drop_performs_' + what.replace(' ', '_'), b, b.where(), '%s reaches %s%s' % (fn, pats[0], (', skipped only when ' + allowed_txt) if allowed else ''),
                  'dropping no longer performs the %s%s' % (what, (' whenever it should: it is skipped under %s (allowed: %s)' % (bad, allowed_txt)) if bad else ''))
    # State::drop tells the endpoint `Drained` unless the protocol state machine itself already reported it:
    # the only condition that may skip the notification is inner.is_drained()
    sdp = ctx.qfn('<connection::State as Drop>::drop')
    dr = [c for c in sdp.calls() if c.is_('EndpointEvent::drained', 'quinn_proto::EndpointEvent::drained')]
    ctx.floor('e', 'state_drop_drained_sites', len(dr), 1)
    for c in dr:
        skipping = []
        for br in branches(F, sdp):
            if sdp.dominates(br.bb, c.bb) and any(c.bb not in sdp.reachable_from(t, avoid=[br.bb]) for v, t in br.edges):
                skipping.append(br)
        okc = bool(skipping) and all(br.desc[0] == 'call' and br.desc[1] in ('Connection::is_drained', 'quinn_proto::Connection::is_drained') or
                                     (peel_not(br.desc)[0][0] == 'call' and peel_not(br.desc)[0][1].endswith('Connection::is_drained')) for br in skipping)
        ctx.check(okc, 'e', 'state_drop_notifies_unless_drained', sdp, c.where(), 'skipped only when inner.is_drained()',
                  'State::drop skips the endpoint notification under another condition (%s): a connection dropped while closed-but-not-drained leaks its endpoint entry, wait_idle() never returns' % [D.render(br.desc)[:60] for br in skipping])
    for fn, fld in (('<send_stream::SendStream as Drop>::drop', 'blocked_writers'), ('<recv_stream::RecvStream as Drop>::drop', 'blocked_readers'), ('recv_stream::RecvStream::stop', 'blocked_readers')):
        b = ctx.qfn(fn)
        ok = any(c.is_('HashMap::remove') and D.has_field(arg_desc(F, c, 0), fld) for c in b.calls())
        ctx.check(ok, 'e', 'stale_registration_removed_' + fn.split('::')[-2].strip('<> ') + '_' + fld, b, b.where(), '%s.remove(&id)' % fld, '%s leaves a stale waker registration in %s' % (fn, fld))
    # the implicit finish (and the reset that replaces it on a stopped stream) queue frames: on the success edge of each, every
    # path to the return wakes the driver
    sd = ctx.qfn('<send_stream::SendStream as Drop>::drop')
    wakes = _driver_wake_blocks(F, sd)
    fin = sd.calls_to('quinn_proto::SendStream::finish')
    rst = sd.calls_to('quinn_proto::SendStream::reset')
    okw = bool(wakes) and bool(fin)
    why = []
    for s_, is_finish in [(x, True) for x in fin] + [(x, False) for x in rst]:
        examined = any((br.desc[0] == 'discr' and is_site(br.desc[1], s_)) or any(c_[0] == 'err' and is_site(c_[1], s_) for _, c_ in _edge_conds(br)) for br in branches(F, sd))
        if not examined:
            if is_finish:
                okw = False
                why.append('result of finish() is not examined')
            continue   # a reset whose result is ignored: covered by the finish check only when a wake follows unconditionally
        # paths consistent with the call having returned Ok (a later test of the same result cannot take its Ok edge after an
        # earlier one took the Err edge)
        p = _path_assuming(F, sd, s_, 'ok', None, wakes)
        if p is not None:
            okw = False
            why.append('after a successful %s: %s' % ('finish()' if is_finish else 'reset()', fmt_path(sd, p)))
    for s_ in rst:
        # a reset with an unexamined result must be followed by a wake on every path
        if not any((br.desc[0] == 'discr' and is_site(br.desc[1], s_)) or any(c_[0] == 'err' and is_site(c_[1], s_) for _, c_ in _edge_conds(br)) for br in branches(F, sd)):
            if path_avoiding(sd, sd.succ[s_.bb], sd.return_blocks(), wakes) is not None:
                okw = False
                why.append('reset() not followed by wake()')
    ctx.check(okw, 'e', 'implicit_finish_wakes_driver', sd, sd.where(), 'Ok edge of finish() / reset() -> wake() on every path', 'implicit finish is not transmitted (driver not woken): %s' % '; '.join(why))
    # a stream the peer stopped is reset when its handle is dropped (proto does not reset on STOP_SENDING by itself; without the
    # reset the stream is never retired and its stream-count credit is never returned): on every path from the implicit finish()
    # to the return that is consistent with finish() == Err(FinishError::Stopped(_)), the stream is reset
    fe = [a for p_, a in F.adts.items() if a.get('crate') == 'quinn_proto' and p_.endswith('::FinishError')]
    stopped_v = [int(v.get('discr', i)) for a in fe for i, v in enumerate(a['variants']) if v['name'] == 'Stopped']
    rst_blocks = {bb for bb in may_sites(F, sd, ['quinn_proto::SendStream::reset'], 2) if bb in sd.live_blocks()}
    okr = len(stopped_v) == 1 and bool(fin)
    whyr = [] if okr else ['finish() / FinishError::Stopped not found']
    for s_ in fin if okr else []:
        p_ = _path_assuming(F, sd, s_, 'stopped', stopped_v[0], rst_blocks)
        if p_ is not None:
            okr = False
            whyr.append(fmt_path(sd, p_))
    ctx.check(okr, 'e', 'drop_resets_stopped_stream', sd, sd.where(), 'finish() == Err(Stopped) -> reset() on every path',
              'dropping a SendStream the peer stopped neither finishes nor resets it (the stream is never retired, no MAX_STREAMS credit returns): a path from finish() = Err(Stopped) to the return avoids reset(): %s' % '; '.join(whyr))
    # last handle: the close is skipped exactly when the decrement saw more than one handle
    cr = ctx.qfn('<connection::ConnectionRef as Drop>::drop')
    fs = [c for c in cr.calls() if short(c.f).endswith('::fetch_sub') and D.has_field(arg_desc(F, c, 0), 'ref_count')]
    ics = sorted(bb for bb in may_sites(F, cr, IMPLICIT_CLOSE, 2) if bb in cr.live_blocks())
    okl = bool(fs) and bool(ics)
    for sb in ics:
        rels = [cond[1] for br, cond in _skipping(F, cr, sb) if cond[0] == 'rel' and any(contains_site(x, c) for c in fs for x in (cond[1][1], cond[1][2]))]
        if not rels or not all(_last_handle_rel(r) for r in rels):
            okl = False
    ctx.check(okl, 'e', 'last_handle_detection', cr, cr.where(), 'close skipped iff ref_count.fetch_sub(1) > 1', 'ConnectionRef::drop no longer detects the last handle (the close must be skipped exactly when fetch_sub(1) returned more than 1)')
    # a connection inserted into an already-closed endpoint is told to close
    ins = ctx.qfn('ConnectionSet::insert')
    brs = [br for br in branches(F, ins) if br.desc[0] == 'discr' and D.has_field(br.desc, 'close')]
    cl = [c for c in constructions(F, 'ConnectionEvent', 'Close', crate='quinn') if c.body.id == ins.id]
    ok = bool(brs) and bool(cl) and all(any(c.bb in ins.reachable_from(br.target(1), avoid=[br.bb]) for c in cl) for br in brs)
    ctx.check(ok, 'e', 'late_connection_on_closed_endpoint_is_closed', ins, ins.where(), 'if let Some((code, reason)) = &self.close { send(Close) }',
              'a connection accepted after Endpoint::close() is not told to close: it stays alive on a closed endpoint and wait_idle never completes')
    ed = ctx.qfn('<endpoint::EndpointDriver as Drop>::drop')
    ctx.check(any(c.is_('Notify::notify_waiters') for c in ed.calls()) and any(c.is_('HashMap::clear') for c in ed.calls()), 'e', 'endpoint_driver_drop_releases', ed, ed.where(), 'senders.clear(); incoming.notify_waiters()', 'dropping the endpoint driver leaves accept() waiters / connection senders dangling')


def _put_back_blocks(F, sd):
    """blocks of SendDatagram::poll that store the datagram handed back by the blocked Datagrams::send() into the future's
    `data` slot: `this.data.replace(d)` / `insert(d)` on that slot, or the same store written as an assignment through the
    slot's reference, `*this.data = Some(d)`; in both forms `d` derives from the result of that send()"""
    sends = sd.calls_to('Datagrams::send')
    live = sd.live_blocks()
    d = describer(F, sd)
    handed_back = lambda x: any(contains_site(x, s_) for s_ in sends)
    out = set()
    for c in sd.calls_to('Option::replace', 'Option::insert'):
        if len(c.args) > 1 and _outer_fields(arg_desc(F, c, 0)) == {'data'} and handed_back(arg_desc(F, c, 1)):
            out.add(c.bb)
    for i, j, pl, rv, line in sd.assigns():
        if i not in live or not pl[1] or pl[1][-1] != '*':
            continue
        if _outer_fields(d.place(pl, i, j)) != {'data'}:
            continue
        v = flat(d.rvalue(rv, i, j, 0))
        if v and all(x[0] == 'agg' and x[2].endswith('Option::Some') and handed_back(x) for x in v):
            out.add(i)
    return out


def rule_f(ctx):
    F = ctx.facts
    # take-then-Pending paths: from the Some edge of the proto accessor, no Pending construction is reachable
    for fn, pats in (('connection::poll_open', ['Streams::open']), ('connection::poll_accept', ['Streams::accept']), ('<ReadDatagram as Future>::poll', ['Datagrams::recv'])):
        b = ctx.qfn(fn)
        pend = [c.bb for c in constructions(F, 'Poll', 'Pending', crate='quinn') if c.body.id == b.id]
        pend += [c.bb for c in b.calls() if c.is_('<Notified as Future>::poll', 'Notified::poll')]
        for s in b.calls_to(*pats):
            ok = False
            for br in branches(F, b):
                if br.desc[0] == 'discr' and is_site(br.desc[1], s):
                    t_some = br.target(1)
                    ok = all(p not in b.reachable_from(t_some, avoid=[br.bb]) for p in pend)
            ctx.check(ok, 'f', 'taken_item_returned_ready', b, s.where(), 'Some(item) edge reaches no Pending', '%s can take an item from the connection and then return Pending (the item is lost if the future is dropped)' % fn, site_class=fn)
    sd = ctx.qfn('<SendDatagram as Future>::poll')
    rep = _put_back_blocks(F, sd)
    pend = [c.bb for c in sd.calls() if c.is_('<Notified as Future>::poll', 'Notified::poll')]
    ok = bool(rep) and bool(pend) and all(any(sd.dominates(r, p) for r in rep) for p in pend)
    ctx.check(ok, 'f', 'blocked_datagram_put_back', sd, sd.where(), 'this.data.replace(data) dominates the Pending path', 'a blocked datagram is not put back before returning Pending')
    ep = ctx.qfn('SendStream::execute_poll')
    pend = [c for c in constructions(F, 'Poll', 'Pending', crate='quinn') if c.body.id == ep.id]
    ins = [c for c in ep.calls() if c.is_('HashMap::insert') and D.has_field(arg_desc(F, c, 0), 'blocked_writers')]
    ok = bool(pend) and bool(ins) and all(any(ep.dominates(i.bb, p.bb) for i in ins) for p in pend) and len(pend) == 1
    ctx.check(ok, 'f', 'write_pending_only_when_blocked', ep, ep.where(), 'single Pending exit, on the Blocked arm after registering', 'execute_poll has a Pending exit other than the Blocked arm')
    pr = ctx.qfn('RecvStream::poll_read_generic')
    pend = [c for c in constructions(F, 'Poll', 'Pending', crate='quinn') if c.body.id == pr.id]
    ins = [c for c in pr.calls() if c.is_('HashMap::insert') and D.has_field(arg_desc(F, c, 0), 'blocked_readers')]
    ok = len(pend) == 1 and bool(ins) and all(any(pr.dominates(i.bb, p.bb) for i in ins) for p in pend)
    # the Pending exit is on the `read == None` arm: dominated by a test of the Option payload of ReadStatus::Failed, and reachable
    # only over its None edge (bytes already consumed from the stream are returned, not dropped)
    for p in pend:
        separated = False
        for br in branches(F, pr):
            if not pr.dominates(br.bb, p.bb):
                continue
            conds = [(t, c) for t, c in _edge_conds(br) if c[0] in ('discr', 'some') and _is_variant_field(c[1], 'Failed', '0')]
            if not conds:
                continue
            explicit = [c[2] for t, c in conds if c[0] == 'discr']
            nodata = lambda c: (c[0] == 'discr' and (c[2] == 0 or (c[2] is None and 0 not in explicit and 1 in explicit))) or (c[0] == 'some' and c[2] is False)
            reach = lambda t: t in pr.live_blocks() and p.bb in pr.reachable_from(t, avoid=[br.bb])
            # (match lowering may test the payload more than once with shared fall-through blocks: one separating test suffices)
            if any(nodata(c) and reach(t) for t, c in conds) and not any(reach(t) for t, c in conds if not nodata(c)):
                separated = True
        if not separated:
            ok = False
    ctx.check(ok, 'f', 'read_pending_only_without_data', pr, pr.where(), 'single Pending exit after registering in blocked_readers', 'poll_read_generic has a Pending exit that does not register / is not the no-data arm')
    st = [w for w in field_writes(F, 'recv_stream::RecvStream', 'reset', crate='quinn') if w.body.id == pr.id and w.kind == 'assign']
    ctx.check(len(st) >= 2, 'f', 'reset_seen_with_data_is_parked', pr, pr.where(), 'self.reset = Some(code) on both Failed(.., Reset) arms', 'a reset observed together with data is no longer parked for the next call')


def _busy_edge_wakes(F, b, producers, pend_blocks, wakes):
    """every stage in `producers` reports `work remains` by returning true (Ok(true)): on every path from such a stage to a
    Pending construction that is consistent with the stage having returned true, the driver wakes itself.  (The flag the stages'
    results are accumulated into may be written `k |= a; k |= b`, `a | b`, `a || b` on already evaluated operands, or as
    branches: the path search propagates the assumed result through all of them.)  Returns (ok, offending path)."""
    for p_ in producers:
        sites = [c for c in b.calls_to(p_)]
        if not sites:
            return False, None
        for s_ in sites:
            v = _assumed_result(b, s_, True)
            p = _path_assuming_value(b, s_, v, pend_blocks, wakes)
            if p is not None:
                return False, p
    return True, None


def rule_g(ctx):
    F = ctx.facts
    dp = ctx.qfn('<ConnectionDriver as Future>::poll')
    pend = [c for c in constructions(F, 'Poll', 'Pending', crate='quinn') if c.body.id == dp.id]
    wk = {c.bb for c in dp.calls_to('Waker::wake_by_ref')} | {w.bb for w in field_writes(F, 'connection::State', 'driver', crate='quinn') if w.body.id == dp.id and w.kind == 'assign'}
    ok = bool(pend) and len(wk) >= 2 and all(path_avoiding(dp, [0], [p.bb], wk) is None for p in pend)
    ctx.check(ok, 'g', 'driver_pending_always_rescheduled', dp, dp.where(), 'wake_by_ref() or driver = Some(waker) before every Pending', 'the connection driver can return Pending without storing its waker or self-waking')
    # order: what processing / transmitting / timers produce is forwarded in the same poll: from each producing stage every path to a
    # return (other than the error exits: `?`, terminate) passes the later stages
    errs = {c.bb for c in dp.calls() if c.is_('FromResidual::from_residual', 'connection::State::terminate', 'State::terminate')}
    stc = {n_: dp.calls_to('State::' + n_) for n_ in ('process_conn_events', 'drive_transmit', 'drive_timer', 'forward_endpoint_events', 'forward_app_events')}
    st = {n_: {c.bb for c in cs_} for n_, cs_ in stc.items()}
    succeeded = {c.bb: _assumed_result(dp, c, None) for cs_ in stc.values() for c in cs_ if _assumed_result(dp, c, None) is not None}
    order_bad = []
    for first, then in (('process_conn_events', 'drive_transmit'), ('process_conn_events', 'forward_endpoint_events'), ('process_conn_events', 'forward_app_events'),
                        ('drive_transmit', 'forward_endpoint_events'), ('drive_transmit', 'forward_app_events'), ('drive_timer', 'forward_endpoint_events'), ('drive_timer', 'forward_app_events')):
        for sb in stc[first]:
            # the error exit of a stage is the Err edge of the test of its own result, however that test is written
            # (`?`, `if let Err(e)`, `match`, `is_err()`): only paths on which the stage succeeded are examined
            v_ = _assumed_result(dp, sb, None)
            p_ = _path_assuming_value(dp, sb, v_, dp.return_blocks(), st[then] | errs, succeeded) if v_ is not None else path_avoiding(dp, dp.succ[sb.bb], dp.return_blocks(), st[then] | errs)
            if p_ is not None:
                order_bad.append('%s is not followed by %s: %s' % (first, then, fmt_path(dp, p_)))
    # ... and the error exit of a stage is a real one: on every path on which the stage failed, the failure is propagated to the
    # caller (`?`, or `return Poll::Ready(Err(e))` with `e` the stage's own error) or the connection state is terminated
    dd = describer(F, dp)
    for cs_ in stc.values():
        for sb in cs_:
            if _assumed_result(dp, sb, None) is None:
                continue
            prop = {c.bb for c in constructions(F, 'Result', 'Err', crate='quinn') if c.body.id == dp.id and c.ops and contains_site(dd.operand(c.ops[0], c.bb, c.idx), sb)}
            p_ = _path_assuming_value(dp, sb, ('res_err',), dp.return_blocks(), errs | prop)
            if p_ is not None:
                order_bad.append('a failed %s is neither propagated nor terminates the connection: %s' % (short(sb.f), fmt_path(dp, p_)))
    ctx.check(all(st.values()) and not order_bad, 'g', 'driver_stages', dp, dp.where(), 'events -> transmit -> timer -> forward, each later stage on every non-error path after the earlier one',
              'the connection driver loop no longer runs its stages in order (events produced by a stage are not forwarded in the same poll): %s' % '; '.join(order_bad[:3]))
    # polarity of the reschedule decision: when a stage reported remaining work (keep_going) the driver wakes itself
    pend_b = [p.bb for p in pend]
    wk_self = {c.bb for c in dp.calls_to('Waker::wake_by_ref')}
    okb, pb = _busy_edge_wakes(F, dp, ('State::drive_transmit', 'State::drive_timer'), pend_b, wk_self)
    ctx.check(okb, 'g', 'driver_busy_self_wakes', dp, dp.where(), 'keep_going == true edge -> wake_by_ref() before Pending',
              'the connection driver does not wake itself on the edge where drive_transmit / drive_timer reported remaining work: %s' % fmt_path(dp, pb))
    dt = ctx.qfn('State::drive_timer')
    ht = dt.calls_to('quinn_proto::Connection::handle_timeout')
    ctx.check(len(ht) >= 2 and bool(dt.calls_to('quinn_proto::Connection::poll_timeout')), 'g', 'timer_serviced', dt, dt.where(), 'poll_timeout + handle_timeout (clock check and post-poll)', 'drive_timer no longer services expired deadlines')
    edp = ctx.qfn('<EndpointDriver as Future>::poll')
    epend = [c.bb for c in constructions(F, 'Poll', 'Pending', crate='quinn') if c.body.id == edp.id]
    ewk = {c.bb for c in edp.calls_to('Waker::wake_by_ref')}
    okb, pb = _busy_edge_wakes(F, edp, ('State::drive_recv', 'State::handle_events'), epend, ewk)
    ctx.check(bool(ewk) and bool(epend) and okb, 'g', 'endpoint_driver_self_wakes', edp, edp.where(), 'keep_going == true edge -> wake_by_ref() before Pending',
              'the endpoint driver no longer reschedules itself when work remains (no wake_by_ref on the edge where drive_recv / handle_events reported remaining work): %s' % fmt_path(edp, pb))


def run(ctx):
    rule_a(ctx)
    rule_b(ctx)
    rule_b_waiter_notify(ctx)
    rule_c(ctx)
    rule_c_reset_completes_stopped(ctx)
    rule_d(ctx)
    rule_e(ctx)
    rule_f(ctx)
    rule_g(ctx)
    ctx.assume('tokio::sync::Notify / mpsc / Waker semantics are trusted; Runtime, AsyncUdpSocket, UdpSender, AsyncTimer implementations are component boundaries')
    # obligations shared with a sibling property (evaluated by the owning module, reported here under letter x)
    from engine.rulelib import share as _share
    _share(ctx, 'C17', 'rule_e_handles', 'x', 'a stream handle from rejected 0-RTT is inert: its Drop / finish must not touch the fresh stream that reuses the id')

