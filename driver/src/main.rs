// qvfacts: rustc_private fact extractor for the quinn static checks.
//
// Used as RUSTC_WORKSPACE_WRAPPER (argv[1] is the real rustc path and is
// dropped).  When QV_OUT is set and the crate being compiled is a primary
// workspace package, writes <QV_OUT>/<crate>[-<tag>].json in one write with
// the MIR facts of every local body, the ADT table, trait impl table and
// evaluated consts.  Compilation then continues normally so dependants get
// their metadata.
#![feature(rustc_private)]

extern crate rustc_abi;
extern crate rustc_driver;
extern crate rustc_hir;
extern crate rustc_interface;
extern crate rustc_middle;
extern crate rustc_session;
extern crate rustc_span;

use rustc_driver::{Callbacks, Compilation};
use rustc_hir::def::DefKind;
use rustc_hir::def_id::{DefId, LocalDefId, LOCAL_CRATE};
use rustc_interface::interface::Compiler;
use rustc_middle::mir::*;
use rustc_middle::ty::print::with_no_trimmed_paths;
use rustc_middle::ty::{self, GenericArgsRef, Instance, InstanceKind, Ty, TyCtxt, TypingEnv};
use rustc_span::Span;
use std::fmt::Write as _;

const VERSION: &str = "qvfacts-8";

fn esc(s: &str, out: &mut String) {
    out.push('"');
    for c in s.chars() {
        match c {
            '"' => out.push_str("\\\""),
            '\\' => out.push_str("\\\\"),
            '\n' => out.push_str("\\n"),
            '\r' => out.push_str("\\r"),
            '\t' => out.push_str("\\t"),
            c if (c as u32) < 0x20 => {
                let _ = write!(out, "\\u{:04x}", c as u32);
            }
            c => out.push(c),
        }
    }
    out.push('"');
}

fn js(s: &str) -> String {
    let mut o = String::with_capacity(s.len() + 2);
    esc(s, &mut o);
    o
}

struct Cx<'tcx> {
    tcx: TyCtxt<'tcx>,
    krate: String,
}

impl<'tcx> Cx<'tcx> {
    fn path(&self, did: DefId) -> String {
        let p = with_no_trimmed_paths!(self.tcx.def_path_str(did));
        if did.is_local() {
            format!("{}::{}", self.krate, p)
        } else {
            p
        }
    }

    fn ty_s(&self, t: Ty<'tcx>) -> String {
        with_no_trimmed_paths!(format!("{}", t))
    }

    fn loc(&self, span: Span) -> (String, usize) {
        let sp = span.source_callsite();
        let sm = self.tcx.sess.source_map();
        let lo = sm.lookup_char_pos(sp.lo());
        let f = match &lo.file.name {
            rustc_span::FileName::Real(r) => match r.local_path() {
                Some(p) => p.to_string_lossy().to_string(),
                None => format!("{:?}", r),
            },
            other => format!("{:?}", other),
        };
        (f, lo.line)
    }

    fn line(&self, span: Span) -> usize {
        self.loc(span).1
    }

    fn macros(&self, span: Span) -> Vec<String> {
        let mut v = Vec::new();
        if span.from_expansion() {
            for ed in span.macro_backtrace() {
                v.push(format!("{}", ed.kind.descr()));
            }
        }
        v
    }

    fn field_name(&self, base: ty::Ty<'tcx>, variant: Option<rustc_abi::VariantIdx>, f: rustc_abi::FieldIdx) -> (String, String) {
        match base.kind() {
            ty::Adt(def, _) => {
                let vi = variant.unwrap_or(rustc_abi::FIRST_VARIANT);
                let adt = self.path(def.did());
                if def.is_enum() || vi.as_usize() < def.variants().len() {
                    let v = def.variant(vi);
                    if f.as_usize() < v.fields.len() {
                        return (v.fields[f].name.to_string(), adt);
                    }
                }
                (format!("{}", f.as_usize()), adt)
            }
            ty::Closure(did, _) | ty::Coroutine(did, _) | ty::CoroutineClosure(did, _) => {
                let mut name = format!("{}", f.as_usize());
                if let Some(ldid) = did.as_local() {
                    let caps = self.tcx.closure_captures(ldid);
                    if f.as_usize() < caps.len() {
                        name = caps[f.as_usize()].to_string(self.tcx);
                    }
                }
                (name, format!("{{closure}}{}", self.path(*did)))
            }
            _ => (format!("{}", f.as_usize()), String::new()),
        }
    }

    fn place(&self, body: &Body<'tcx>, p: &Place<'tcx>, out: &mut String) {
        let _ = write!(out, "[{},[", p.local.as_usize());
        let mut pty = rustc_middle::mir::PlaceTy::from_ty(body.local_decls[p.local].ty);
        let mut first = true;
        for elem in p.projection.iter() {
            if !first {
                out.push(',');
            }
            first = false;
            match elem {
                ProjectionElem::Deref => out.push_str("\"*\""),
                ProjectionElem::Field(f, _) => {
                    let (n, adt) = self.field_name(pty.ty, pty.variant_index, f);
                    out.push_str("[\"f\",");
                    esc(&n, out);
                    out.push(',');
                    esc(&adt, out);
                    out.push(']');
                }
                ProjectionElem::Downcast(sym, vi) => {
                    let n = match sym {
                        Some(s) => s.to_string(),
                        None => format!("{}", vi.as_usize()),
                    };
                    out.push_str("[\"v\",");
                    esc(&n, out);
                    out.push(']');
                }
                ProjectionElem::Index(l) => {
                    let _ = write!(out, "[\"i\",{}]", l.as_usize());
                }
                ProjectionElem::ConstantIndex { offset, from_end, .. } => {
                    let _ = write!(out, "[\"ci\",{},{}]", offset, from_end);
                }
                ProjectionElem::Subslice { .. } => out.push_str("\"sub\""),
                ProjectionElem::OpaqueCast(_) => out.push_str("\"oc\""),
                ProjectionElem::UnwrapUnsafeBinder(_) => out.push_str("\"ub\""),
            }
            pty = pty.projection_ty(self.tcx, elem);
        }
        out.push_str("]]");
    }

    fn operand(&self, body: &Body<'tcx>, env: TypingEnv<'tcx>, o: &Operand<'tcx>, out: &mut String) {
        match o {
            Operand::Copy(p) => {
                out.push_str("[\"c\",");
                self.place(body, p, out);
                out.push(']');
            }
            Operand::Move(p) => {
                out.push_str("[\"m\",");
                self.place(body, p, out);
                out.push(']');
            }
            Operand::Constant(c) => {
                let ty = c.const_.ty();
                let tys = self.ty_s(ty);
                if let ty::FnDef(did, _) = *ty.kind() {
                    out.push_str("[\"k\",\"fn\",");
                    esc(&self.path(did), out);
                    out.push(',');
                    esc(&tys, out);
                    out.push(']');
                    return;
                }
                // named const?
                let mut named = String::new();
                if let Const::Unevaluated(uv, _) = c.const_ {
                    named = self.path(uv.def);
                    if let Some(p) = uv.promoted {
                        named = format!("{}::promoted[{}]", named, p.as_usize());
                    }
                }
                let is_scalar = ty.is_integral() || ty.is_bool() || ty.is_char();
                if is_scalar {
                    if let Some(si) = c.const_.try_eval_scalar_int(self.tcx, env) {
                        let v: u128 = si.to_bits_unchecked();
                        let sz = si.size().bytes();
                        // signed interpretation when the type is signed
                        let s = if ty.is_signed() {
                            let shift = 128 - sz * 8;
                            let sv = ((v << shift) as i128) >> shift;
                            format!("{}", sv)
                        } else {
                            format!("{}", v)
                        };
                        out.push_str("[\"k\",\"int\",");
                        esc(&s, out);
                        out.push(',');
                        esc(&tys, out);
                        out.push(',');
                        esc(&named, out);
                        out.push(']');
                        return;
                    }
                }
                out.push_str("[\"k\",\"other\",");
                esc(&with_no_trimmed_paths!(format!("{}", c.const_)), out);
                out.push(',');
                esc(&tys, out);
                out.push(',');
                esc(&named, out);
                out.push(']');
            }
            #[allow(unreachable_patterns)]
            _ => {
                out.push_str("[\"k\",\"other\",");
                esc(&format!("{:?}", o), out);
                out.push_str(",\"\",\"\"]");
            }
        }
    }

    fn rvalue(&self, body: &Body<'tcx>, env: TypingEnv<'tcx>, rv: &Rvalue<'tcx>, out: &mut String) {
        match rv {
            Rvalue::Use(o, ..) => {
                out.push_str("[\"use\",");
                self.operand(body, env, o, out);
                out.push(']');
            }
            Rvalue::Ref(_, bk, p) => {
                let m = matches!(bk, BorrowKind::Mut { .. });
                let _ = write!(out, "[\"ref\",{},", m);
                self.place(body, p, out);
                out.push(']');
            }
            Rvalue::RawPtr(k, p) => {
                let m = format!("{:?}", k);
                out.push_str("[\"ptr\",");
                esc(&m, out);
                out.push(',');
                self.place(body, p, out);
                out.push(']');
            }
            Rvalue::CopyForDeref(p) => {
                out.push_str("[\"use\",[\"c\",");
                self.place(body, p, out);
                out.push_str("]]");
            }
            Rvalue::BinaryOp(op, ops) => {
                out.push_str("[\"bin\",");
                esc(&format!("{:?}", op), out);
                out.push(',');
                self.operand(body, env, &ops.0, out);
                out.push(',');
                self.operand(body, env, &ops.1, out);
                out.push(']');
            }
            Rvalue::UnaryOp(op, o) => {
                out.push_str("[\"un\",");
                esc(&format!("{:?}", op), out);
                out.push(',');
                self.operand(body, env, o, out);
                out.push(']');
            }
            Rvalue::Cast(k, o, t) => {
                out.push_str("[\"cast\",");
                esc(&format!("{:?}", k), out);
                out.push(',');
                self.operand(body, env, o, out);
                out.push(',');
                esc(&self.ty_s(*t), out);
                out.push(']');
            }
            Rvalue::Discriminant(p) => {
                out.push_str("[\"discr\",");
                self.place(body, p, out);
                out.push(']');
            }
            Rvalue::Repeat(o, n) => {
                out.push_str("[\"rep\",");
                self.operand(body, env, o, out);
                out.push(',');
                esc(&format!("{}", n), out);
                out.push(']');
            }
            Rvalue::Aggregate(kind, ops) => {
                out.push_str("[\"agg\",");
                match &**kind {
                    AggregateKind::Array(_) => out.push_str("[\"array\"]"),
                    AggregateKind::Tuple => out.push_str("[\"tuple\"]"),
                    AggregateKind::Adt(did, vi, _, _, _) => {
                        let def = self.tcx.adt_def(*did);
                        let v = def.variant(*vi);
                        out.push_str("[\"adt\",");
                        esc(&self.path(*did), out);
                        out.push(',');
                        esc(&v.name.to_string(), out);
                        out.push_str(",[");
                        for (i, f) in v.fields.iter().enumerate() {
                            if i > 0 {
                                out.push(',');
                            }
                            esc(&f.name.to_string(), out);
                        }
                        out.push_str("]]");
                    }
                    AggregateKind::Closure(did, _) => {
                        out.push_str("[\"closure\",");
                        esc(&self.path(*did), out);
                        out.push(']');
                    }
                    AggregateKind::Coroutine(did, _) => {
                        out.push_str("[\"coroutine\",");
                        esc(&self.path(*did), out);
                        out.push(']');
                    }
                    AggregateKind::CoroutineClosure(did, _) => {
                        out.push_str("[\"closure\",");
                        esc(&self.path(*did), out);
                        out.push(']');
                    }
                    AggregateKind::RawPtr(..) => out.push_str("[\"rawptr\"]"),
                }
                out.push_str(",[");
                for (i, o) in ops.iter().enumerate() {
                    if i > 0 {
                        out.push(',');
                    }
                    self.operand(body, env, o, out);
                }
                out.push_str("]]");
            }
            other => {
                out.push_str("[\"other\",");
                esc(&format!("{:?}", other), out);
                out.push(']');
            }
        }
    }

    fn call(
        &self,
        body: &Body<'tcx>,
        env: TypingEnv<'tcx>,
        func: &Operand<'tcx>,
        args: &[rustc_span::Spanned<Operand<'tcx>>],
        destination: &Place<'tcx>,
        target: Option<BasicBlock>,
        span: Span,
        out: &mut String,
    ) {
        out.push_str("[\"call\",{");
        let mut kind = "fnptr";
        let mut decl = String::new();
        let mut resolved = String::new();
        let mut ga: Vec<String> = Vec::new();
        let mut tr = String::new();
        let mut sizes: Vec<i64> = Vec::new();
        let fty = func.ty(&body.local_decls, self.tcx);
        if let ty::FnDef(did, gargs) = *fty.kind() {
            decl = self.path(did);
            for a in gargs.iter() {
                if let Some(t) = a.as_type() {
                    ga.push(self.ty_s(t));
                    if self.krate == "quinn_udp" || self.krate == "qvfix" {
                        let sz = match self.tcx.layout_of(env.as_query_input(t)) {
                            Ok(l) => l.size.bytes() as i64,
                            Err(_) => -1,
                        };
                        sizes.push(sz);
                    }
                } else if let Some(c) = a.as_const() {
                    ga.push(format!("{}", c));
                }
            }
            if let Some(tid) = self.tcx.trait_of_assoc(did) {
                tr = self.path(tid);
            }
            kind = "item";
            resolved = decl.clone();
            let is_trait_item = self.tcx.trait_of_assoc(did).is_some();
            if is_trait_item {
                kind = "unresolved";
                // try to resolve
                let r = std::panic::catch_unwind(std::panic::AssertUnwindSafe(|| {
                    Instance::try_resolve(self.tcx, env, did, gargs)
                }));
                if let Ok(Ok(Some(inst))) = r {
                    match inst.def {
                        InstanceKind::Item(d) => {
                            if self.tcx.trait_of_assoc(d).is_some() && !self.tcx.defaultness(d).has_value() {
                                kind = "unresolved";
                            } else {
                                kind = "item";
                                resolved = self.path(d);
                            }
                        }
                        InstanceKind::Virtual(d, _) => {
                            kind = "virtual";
                            resolved = self.path(d);
                        }
                        InstanceKind::ClosureOnceShim { call_once: _, .. } => {
                            kind = "closurecall";
                        }
                        InstanceKind::FnPtrShim(..) => {
                            kind = "fnptrshim";
                        }
                        InstanceKind::CloneShim(..) => {
                            kind = "shim";
                            resolved = decl.clone();
                        }
                        InstanceKind::DropGlue(..) => {
                            kind = "shim";
                        }
                        InstanceKind::Intrinsic(d) => {
                            kind = "intrinsic";
                            resolved = self.path(d);
                        }
                        other => {
                            kind = "shim";
                            resolved = self.path(other.def_id());
                        }
                    }
                    // closure call through Fn* traits: first generic arg is the closure type
                    if let InstanceKind::Item(d) = inst.def {
                        if self.tcx.is_closure_like(d) {
                            kind = "closurecall";
                            resolved = self.path(d);
                        }
                    }
                }
            } else if self.tcx.intrinsic(did).is_some() {
                kind = "intrinsic";
            }
        }
        out.push_str("\"k\":");
        esc(kind, out);
        out.push_str(",\"f\":");
        esc(&resolved, out);
        out.push_str(",\"df\":");
        esc(&decl, out);
        if !tr.is_empty() {
            out.push_str(",\"tr\":");
            esc(&tr, out);
        }
        if kind == "fnptr" {
            out.push_str(",\"fo\":");
            self.operand(body, env, func, out);
        }
        out.push_str(",\"ga\":[");
        for (i, g) in ga.iter().enumerate() {
            if i > 0 {
                out.push(',');
            }
            esc(g, out);
        }
        out.push(']');
        if !sizes.is_empty() {
            out.push_str(",\"sz\":[");
            for (i, g) in sizes.iter().enumerate() {
                if i > 0 {
                    out.push(',');
                }
                let _ = write!(out, "{}", g);
            }
            out.push(']');
        }
        out.push_str(",\"args\":[");
        for (i, a) in args.iter().enumerate() {
            if i > 0 {
                out.push(',');
            }
            self.operand(body, env, &a.node, out);
        }
        out.push_str("],\"dst\":");
        self.place(body, destination, out);
        match target {
            Some(t) => {
                let _ = write!(out, ",\"t\":{}", t.as_usize());
            }
            None => out.push_str(",\"t\":null"),
        }
        let _ = write!(out, ",\"line\":{}", self.line(span));
        let macs = self.macros(span);
        if !macs.is_empty() {
            out.push_str(",\"mac\":[");
            for (i, m) in macs.iter().enumerate() {
                if i > 0 {
                    out.push(',');
                }
                esc(m, out);
            }
            out.push(']');
        }
        out.push_str("}]");
    }

    fn body(&self, did: LocalDefId, body: &Body<'tcx>, kind: &str, out: &mut String) {
        let tcx = self.tcx;
        let def_id = did.to_def_id();
        let env = TypingEnv::post_analysis(tcx, def_id);
        out.push_str("{\"id\":");
        esc(&self.path(def_id), out);
        out.push_str(",\"kind\":");
        esc(kind, out);
        let dk = tcx.def_kind(def_id);
        let name = tcx.opt_item_name(def_id).map(|s| s.to_string()).unwrap_or_default();
        out.push_str(",\"name\":");
        esc(&name, out);
        if tcx.is_closure_like(def_id) {
            let parent = tcx.typeck_root_def_id(def_id);
            out.push_str(",\"root\":");
            esc(&self.path(parent), out);
            let p = tcx.parent(def_id);
            out.push_str(",\"parent\":");
            esc(&self.path(p), out);
            if let Some(ck) = tcx.coroutine_kind(def_id) {
                out.push_str(",\"cokind\":");
                esc(&format!("{:?}", ck), out);
            }
        }
        if matches!(dk, DefKind::AssocFn | DefKind::AssocConst { .. }) {
            let p = tcx.parent(def_id);
            if matches!(tcx.def_kind(p), DefKind::Impl { .. }) {
                let st = tcx.type_of(p).instantiate_identity().skip_norm_wip();
                out.push_str(",\"self_ty\":");
                esc(&self.ty_s(st), out);
                if let Some(tr) = tcx.impl_opt_trait_ref(p) {
                    let tr = tr.instantiate_identity().skip_norm_wip();
                    out.push_str(",\"trait\":");
                    esc(&self.path(tr.def_id), out);
                }
            } else if matches!(tcx.def_kind(p), DefKind::Trait) {
                out.push_str(",\"trait_default\":");
                esc(&self.path(p), out);
            }
        }
        if matches!(dk, DefKind::Fn | DefKind::AssocFn) {
            let vis = tcx.visibility(def_id).is_public();
            let reach = tcx.effective_visibilities(()).is_reachable(did);
            let _ = write!(out, ",\"pub\":{},\"reach\":{}", vis, reach);
            let is_async = tcx.asyncness(def_id).is_async();
            let _ = write!(out, ",\"async\":{}", is_async);
        }
        let (file, line) = self.loc(body.span);
        out.push_str(",\"file\":");
        esc(&file, out);
        let _ = write!(out, ",\"line\":{},\"argc\":{}", line, body.arg_count);
        // locals
        out.push_str(",\"locals\":[");
        let mut names: Vec<Option<String>> = vec![None; body.local_decls.len()];
        let mut extra_dbg: Vec<(String, String)> = Vec::new();
        for vdi in &body.var_debug_info {
            if let VarDebugInfoContents::Place(p) = &vdi.value {
                if p.projection.is_empty() {
                    if names[p.local.as_usize()].is_none() {
                        names[p.local.as_usize()] = Some(vdi.name.to_string());
                    }
                } else {
                    let mut s = String::new();
                    self.place(body, p, &mut s);
                    extra_dbg.push((vdi.name.to_string(), s));
                }
            }
        }
        for (i, ld) in body.local_decls.iter().enumerate() {
            if i > 0 {
                out.push(',');
            }
            out.push('[');
            esc(&self.ty_s(ld.ty), out);
            out.push(',');
            match &names[i] {
                Some(n) => esc(n, out),
                None => out.push_str("null"),
            }
            out.push(']');
        }
        out.push_str("],\"dbg\":[");
        for (i, (n, p)) in extra_dbg.iter().enumerate() {
            if i > 0 {
                out.push(',');
            }
            out.push('[');
            esc(n, out);
            out.push(',');
            out.push_str(p);
            out.push(']');
        }
        out.push_str("],\"blocks\":[");
        for (bi, bb) in body.basic_blocks.iter().enumerate() {
            if bi > 0 {
                out.push(',');
            }
            let _ = write!(out, "{{\"c\":{},\"s\":[", bb.is_cleanup);
            let mut first = true;
            for st in &bb.statements {
                let mut s = String::new();
                match &st.kind {
                    StatementKind::Assign(b) => {
                        let (p, rv) = &**b;
                        s.push_str("[\"=\",");
                        self.place(body, p, &mut s);
                        s.push(',');
                        self.rvalue(body, env, rv, &mut s);
                        let _ = write!(s, ",{}]", self.line(st.source_info.span));
                    }
                    StatementKind::SetDiscriminant { place, variant_index } => {
                        let pty = place.ty(&body.local_decls, tcx).ty;
                        let vn = match pty.kind() {
                            ty::Adt(def, _) if def.is_enum() => def.variant(*variant_index).name.to_string(),
                            _ => format!("{}", variant_index.as_usize()),
                        };
                        s.push_str("[\"sd\",");
                        self.place(body, place, &mut s);
                        s.push(',');
                        esc(&vn, &mut s);
                        let _ = write!(s, ",{}]", self.line(st.source_info.span));
                    }
                    StatementKind::StorageDead(l) => {
                        let _ = write!(s, "[\"dead\",{}]", l.as_usize());
                    }
                    StatementKind::StorageLive(l) => {
                        let _ = write!(s, "[\"live\",{}]", l.as_usize());
                    }
                    _ => {}
                }
                if !s.is_empty() {
                    if !first {
                        out.push(',');
                    }
                    first = false;
                    out.push_str(&s);
                }
            }
            out.push_str("],\"t\":");
            let term = bb.terminator();
            let tline = self.line(term.source_info.span);
            match &term.kind {
                TerminatorKind::Goto { target } => {
                    let _ = write!(out, "[\"goto\",{}]", target.as_usize());
                }
                TerminatorKind::SwitchInt { discr, targets } => {
                    out.push_str("[\"switch\",");
                    self.operand(body, env, discr, out);
                    out.push_str(",[");
                    let mut f = true;
                    for (v, t) in targets.iter() {
                        if !f {
                            out.push(',');
                        }
                        f = false;
                        let _ = write!(out, "[\"{}\",{}]", v, t.as_usize());
                    }
                    let _ = write!(out, "],{},{}]", targets.otherwise().as_usize(), tline);
                }
                TerminatorKind::Return => out.push_str("[\"ret\"]"),
                TerminatorKind::Unreachable => out.push_str("[\"unreach\"]"),
                TerminatorKind::UnwindResume => out.push_str("[\"resume\"]"),
                TerminatorKind::UnwindTerminate(_) => out.push_str("[\"abort\"]"),
                TerminatorKind::Drop { place, target, .. } => {
                    out.push_str("[\"drop\",");
                    self.place(body, place, out);
                    let _ = write!(out, ",{},{}]", target.as_usize(), tline);
                }
                TerminatorKind::Call { func, args, destination, target, fn_span, .. } => {
                    let _ = fn_span;
                    self.call(body, env, func, args, destination, *target, term.source_info.span, out);
                }
                TerminatorKind::TailCall { func, args, .. } => {
                    let dst = Place::return_place();
                    self.call(body, env, func, args, &dst, None, term.source_info.span, out);
                }
                TerminatorKind::Assert { cond, expected, msg, target, .. } => {
                    out.push_str("[\"assert\",");
                    self.operand(body, env, cond, out);
                    let kind = match &**msg {
                        AssertKind::BoundsCheck { .. } => "bounds".to_string(),
                        AssertKind::Overflow(op, ..) => format!("overflow:{:?}", op),
                        AssertKind::OverflowNeg(_) => "overflow:Neg".to_string(),
                        AssertKind::DivisionByZero(_) => "divzero".to_string(),
                        AssertKind::RemainderByZero(_) => "remzero".to_string(),
                        AssertKind::MisalignedPointerDereference { .. } => "misaligned".to_string(),
                        AssertKind::NullPointerDereference => "nullptr".to_string(),
                        AssertKind::InvalidEnumConstruction(_) => "invalidenum".to_string(),
                        AssertKind::ResumedAfterReturn(_) => "resumed".to_string(),
                        AssertKind::ResumedAfterPanic(_) => "resumed".to_string(),
                        AssertKind::ResumedAfterDrop(_) => "resumed".to_string(),
                    };
                    let _ = write!(out, ",{},", expected);
                    esc(&kind, out);
                    let _ = write!(out, ",{},{}", target.as_usize(), tline);
                    let macs = self.macros(term.source_info.span);
                    out.push_str(",[");
                    for (i, m) in macs.iter().enumerate() {
                        if i > 0 {
                            out.push(',');
                        }
                        esc(m, out);
                    }
                    out.push_str("]]");
                }
                TerminatorKind::Yield { value, resume, resume_arg, drop } => {
                    out.push_str("[\"yield\",");
                    self.operand(body, env, value, out);
                    let _ = write!(out, ",{},", resume.as_usize());
                    self.place(body, resume_arg, out);
                    match drop {
                        Some(d) => {
                            let _ = write!(out, ",{}", d.as_usize());
                        }
                        None => out.push_str(",null"),
                    }
                    let _ = write!(out, ",{}]", tline);
                }
                TerminatorKind::CoroutineDrop => out.push_str("[\"codrop\"]"),
                TerminatorKind::FalseEdge { real_target, .. } => {
                    let _ = write!(out, "[\"goto\",{}]", real_target.as_usize());
                }
                TerminatorKind::FalseUnwind { real_target, .. } => {
                    let _ = write!(out, "[\"goto\",{}]", real_target.as_usize());
                }
                TerminatorKind::InlineAsm { targets, .. } => {
                    out.push_str("[\"asm\",[");
                    for (i, t) in targets.iter().enumerate() {
                        if i > 0 {
                            out.push(',');
                        }
                        let _ = write!(out, "{}", t.as_usize());
                    }
                    out.push_str("]]");
                }
            }
            out.push('}');
        }
        out.push_str("]}");
    }

    fn adts(&self, out: &mut String) {
        let tcx = self.tcx;
        let mut first = true;
        for id in tcx.hir_crate_items(()).definitions() {
            let did = id.to_def_id();
            if !matches!(tcx.def_kind(did), DefKind::Struct | DefKind::Enum | DefKind::Union) {
                continue;
            }
            let def = tcx.adt_def(did);
            if !first {
                out.push(',');
            }
            first = false;
            out.push_str("{\"path\":");
            esc(&self.path(did), out);
            let kind = if def.is_enum() {
                "enum"
            } else if def.is_union() {
                "union"
            } else {
                "struct"
            };
            out.push_str(",\"kind\":");
            esc(kind, out);
            let repr = def.repr();
            let _ = write!(
                out,
                ",\"align\":{},\"pub\":{}",
                repr.align.map(|a| a.bytes()).unwrap_or(0),
                tcx.visibility(did).is_public()
            );
            let (file, line) = self.loc(tcx.def_span(did));
            out.push_str(",\"file\":");
            esc(&file, out);
            let _ = write!(out, ",\"line\":{}", line);
            out.push_str(",\"variants\":[");
            for (vi, v) in def.variants().iter_enumerated() {
                if vi.as_usize() > 0 {
                    out.push(',');
                }
                out.push_str("{\"name\":");
                esc(&v.name.to_string(), out);
                if def.is_enum() {
                    let d = def.discriminant_for_variant(tcx, vi);
                    let _ = write!(out, ",\"discr\":\"{}\"", d.val);
                }
                out.push_str(",\"fields\":[");
                for (fi, f) in v.fields.iter().enumerate() {
                    if fi > 0 {
                        out.push(',');
                    }
                    out.push('[');
                    esc(&f.name.to_string(), out);
                    out.push(',');
                    let fty = tcx.type_of(f.did).instantiate_identity().skip_norm_wip();
                    esc(&self.ty_s(fty), out);
                    let _ = write!(out, ",{}]", f.vis.is_public());
                }
                out.push_str("]}");
            }
            out.push_str("]}");
        }
    }

    fn impls(&self, out: &mut String) {
        let tcx = self.tcx;
        let mut first = true;
        for id in tcx.hir_crate_items(()).definitions() {
            let did = id.to_def_id();
            if !matches!(tcx.def_kind(did), DefKind::Impl { .. }) {
                continue;
            }
            let st = tcx.type_of(did).instantiate_identity().skip_norm_wip();
            let tr = tcx.impl_opt_trait_ref(did).map(|t| t.instantiate_identity().skip_norm_wip());
            if !first {
                out.push(',');
            }
            first = false;
            out.push_str("{\"self_ty\":");
            esc(&self.ty_s(st), out);
            out.push_str(",\"trait\":");
            match tr {
                Some(t) => esc(&self.path(t.def_id), out),
                None => out.push_str("null"),
            }
            out.push_str(",\"items\":[");
            let mut f = true;
            for it in tcx.associated_items(did).in_definition_order() {
                if !f {
                    out.push(',');
                }
                f = false;
                out.push('[');
                esc(&it.name().to_string(), out);
                out.push(',');
                esc(&self.path(it.def_id), out);
                out.push(',');
                match it.trait_item_def_id() {
                    Some(t) => esc(&self.path(t), out),
                    None => out.push_str("null"),
                }
                out.push(',');
                esc(&format!("{:?}", tcx.def_kind(it.def_id)), out);
                out.push(']');
            }
            out.push_str("]}");
        }
    }

    fn consts(&self, out: &mut String) {
        let tcx = self.tcx;
        let mut first = true;
        for id in tcx.hir_crate_items(()).definitions() {
            let did = id.to_def_id();
            if !matches!(tcx.def_kind(did), DefKind::Const { .. } | DefKind::AssocConst { .. } | DefKind::Static { .. }) {
                continue;
            }
            if tcx.generics_of(did).requires_monomorphization(tcx) {
                continue;
            }
            if self.path(did).contains("__CALLSITE") {
                continue;
            }
            // assoc consts in traits without a value
            if matches!(tcx.def_kind(did), DefKind::AssocConst { .. })
                && matches!(tcx.def_kind(tcx.parent(did)), DefKind::Trait)
                && !tcx.defaultness(did).has_value()
            {
                continue;
            }
            let ty = tcx.type_of(did).instantiate_identity().skip_norm_wip();
            let mut val = String::new();
            let mut kind = "opaque";
            if !matches!(tcx.def_kind(did), DefKind::Static { .. }) {
                let r = std::panic::catch_unwind(std::panic::AssertUnwindSafe(|| tcx.const_eval_poly(did)));
                if let Ok(Ok(cv)) = r {
                    if let Some(si) = cv.try_to_scalar_int() {
                        let v: u128 = si.to_bits_unchecked();
                        let sz = si.size().bytes();
                        val = if ty.is_signed() {
                            let shift = 128 - sz * 8;
                            format!("{}", ((v << shift) as i128) >> shift)
                        } else {
                            format!("{}", v)
                        };
                        kind = "int";
                    } else {
                        let c = Const::Val(cv, ty);
                        val = with_no_trimmed_paths!(format!("{}", c));
                        kind = "printed";
                    }
                }
            }
            if !first {
                out.push(',');
            }
            first = false;
            out.push_str("{\"path\":");
            esc(&self.path(did), out);
            out.push_str(",\"ty\":");
            esc(&self.ty_s(ty), out);
            out.push_str(",\"kind\":");
            esc(kind, out);
            out.push_str(",\"val\":");
            esc(&val, out);
            let (file, line) = self.loc(tcx.def_span(did));
            out.push_str(",\"file\":");
            esc(&file, out);
            let _ = write!(out, ",\"line\":{}}}", line);
        }
    }
}

struct Cb;

impl Callbacks for Cb {
    fn after_analysis<'tcx>(&mut self, _c: &Compiler, tcx: TyCtxt<'tcx>) -> Compilation {
        let out_dir = match std::env::var("QV_OUT") {
            Ok(d) if !d.is_empty() => d,
            _ => return Compilation::Continue,
        };
        let krate = tcx.crate_name(LOCAL_CRATE).to_string();
        if krate == "build_script_build" {
            return Compilation::Continue;
        }
        let cx = Cx { tcx, krate: krate.clone() };
        let mut out = String::with_capacity(64 << 20);
        out.push_str("{\"version\":");
        esc(VERSION, &mut out);
        out.push_str(",\"crate\":");
        esc(&krate, &mut out);
        out.push_str(",\"bodies\":[");
        let mut first = true;
        let mut nbodies = 0usize;
        for did in tcx.hir_body_owners() {
            let def_id = did.to_def_id();
            let dk = tcx.def_kind(def_id);
            let kind = match dk {
                DefKind::Fn | DefKind::AssocFn => "fn",
                DefKind::Closure => {
                    if tcx.coroutine_kind(def_id).is_some() {
                        "coroutine"
                    } else {
                        "closure"
                    }
                }
                DefKind::Const { .. } | DefKind::AssocConst { .. } | DefKind::Static { .. } => "const",
                _ => continue,
            };
            let mut s = String::new();
            if kind == "const" && cx.path(def_id).contains("__CALLSITE") {
                continue;
            }
            if kind == "const" {
                let b = tcx.mir_for_ctfe(def_id);
                cx.body(did, b, kind, &mut s);
            } else {
                let steal = tcx.mir_drops_elaborated_and_const_checked(did);
                if !steal.is_stolen() {
                    let b = steal.borrow();
                    cx.body(did, &b, kind, &mut s);
                } else {
                    let b = tcx.optimized_mir(def_id);
                    cx.body(did, b, kind, &mut s);
                }
            }
            if !first {
                out.push(',');
            }
            first = false;
            out.push_str(&s);
            nbodies += 1;
            if kind != "const" {
                let proms = tcx.promoted_mir(def_id);
                for (pi, pb) in proms.iter_enumerated() {
                    let mut ps = String::new();
                    cx.body(did, pb, "promoted", &mut ps);
                    // give the promoted body its own id
                    let pid = format!("{}::promoted[{}]", cx.path(def_id), pi.as_usize());
                    let needle = format!("{{\"id\":{}", js(&cx.path(def_id)));
                    if ps.starts_with(&needle) {
                        ps = format!("{{\"id\":{}{}", js(&pid), &ps[needle.len()..]);
                    }
                    out.push(',');
                    out.push_str(&ps);
                }
            }
        }
        out.push_str("],\"adts\":[");
        cx.adts(&mut out);
        out.push_str("],\"impls\":[");
        cx.impls(&mut out);
        out.push_str("],\"consts\":[");
        cx.consts(&mut out);
        out.push_str("]}");
        let tag = std::env::var("QV_TAG").unwrap_or_default();
        let fname = if tag.is_empty() { format!("{}/{}.json", out_dir, krate) } else { format!("{}/{}-{}.json", out_dir, krate, tag) };
        let tmp = format!("{}.tmp{}", fname, std::process::id());
        std::fs::write(&tmp, out.as_bytes()).expect("qvfacts: write failed");
        std::fs::rename(&tmp, &fname).expect("qvfacts: rename failed");
        eprintln!("qvfacts: {} bodies={} -> {}", krate, nbodies, fname);
        Compilation::Continue
    }
}

fn main() {
    let mut args: Vec<String> = std::env::args().collect();
    // RUSTC_WORKSPACE_WRAPPER: argv[1] is the path of the real rustc
    if args.len() > 1 && (args[1].ends_with("rustc") || args[1].contains("/rustc")) {
        args.remove(1);
    }
    if std::env::var("QV_VERSION").is_ok() {
        println!("{}", VERSION);
        return;
    }
    let mut cb = Cb;
    rustc_driver::run_compiler(&args, &mut cb);
}

#[allow(dead_code)]
fn _unused(_: GenericArgsRef<'_>) {}
