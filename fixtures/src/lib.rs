//! Fixture crate for the rule primitives: for every primitive one function that must be flagged (`*_bad`)
//! and one accepted idiom that must not (`*_ok`). Analysed by the same driver on every facts build.
#![allow(dead_code, unused_variables, clippy::all)]
use std::collections::HashMap;
use std::sync::Mutex;
use std::task::Poll;
use std::time::Instant;

pub struct Res {
    pub count: u64,
    pub limit: u64,
    pub items: Vec<u32>,
    pub flag: bool,
}

pub struct Packet {
    pub frames: Vec<u32>,
    pub size: u64,
}

pub enum Kind {
    A,
    B,
    C,
}

#[inline(never)]
pub fn target(x: u32) -> u32 {
    x + 1
}
#[inline(never)]
pub fn acquire() {}
#[inline(never)]
pub fn release() {}
#[inline(never)]
pub fn validate(x: u32) -> bool {
    x > 3
}
#[inline(never)]
pub fn act(x: u32) {}
#[inline(never)]
pub fn take(m: &mut HashMap<u32, Packet>, k: u32) -> Option<Packet> {
    m.remove(&k)
}
#[inline(never)]
pub fn account(p: &Packet) {}
#[inline(never)]
pub fn retransmit(f: u32) {}

// ---- P1 who-may-call -----------------------------------------------------
pub fn allowed_caller(x: u32) -> u32 {
    target(x)
}
pub fn rogue_caller(x: u32) -> u32 {
    let f = |y: u32| target(y);
    f(x)
}

// ---- P5 must-follow ------------------------------------------------------------
pub fn pair_ok(x: u32) -> u32 {
    acquire();
    let r = if x > 2 { x * 2 } else { x };
    release();
    r
}
pub fn pair_bad(x: u32) -> u32 {
    acquire();
    if x > 2 {
        return x * 2;
    }
    release();
    x
}

// ---- P4 must-precede + edge ------------------------------------------------------
pub fn guarded_ok(x: u32) {
    if !validate(x) {
        return;
    }
    act(x);
}
pub fn guarded_bad(x: u32) {
    let _ok = validate(x);
    act(x);
}
pub fn guarded_closure_ok(x: Option<u32>) {
    if x.is_some_and(|v| !validate(v)) {
        return;
    }
    act(1);
}

// ---- P6 guards -------------------------------------------------------------------
impl Res {
    pub fn open_ok(&mut self) -> Option<u64> {
        if self.count >= self.limit {
            self.flag = true;
            return None;
        }
        self.count += 1;
        Some(self.count - 1)
    }
    pub fn open_bad(&mut self) -> Option<u64> {
        if self.count > self.limit {
            self.flag = true;
            return None;
        }
        self.count += 1;
        Some(self.count - 1)
    }
    pub fn matches_ok(&mut self, k: &Kind) -> Result<(), ()> {
        if matches!(k, Kind::B) {
            return Err(());
        }
        self.count += 1;
        Ok(())
    }
    // ---- P8 write idiom / P2 who-may-write -----------------------------------------
    pub fn raise_ok(&mut self, n: u64) {
        self.limit = self.limit.max(n);
    }
    pub fn raise_bad(&mut self, n: u64) {
        self.limit = n;
    }
    // ---- capped container --------------------------------------------------------
    pub fn push_ok(&mut self, v: u32) {
        if self.items.len() < 16 {
            self.items.push(v);
        }
    }
    pub fn push_bad(&mut self, v: u32) {
        self.items.push(v);
    }
}

// ---- P7 flows-always -------------------------------------------------------------
pub fn flow_ok(m: &mut HashMap<u32, Packet>, k: u32) {
    if let Some(p) = take(m, k) {
        account(&p);
        for f in p.frames {
            retransmit(f);
        }
    }
}
pub fn flow_bad(m: &mut HashMap<u32, Packet>, k: u32) {
    if let Some(p) = take(m, k) {
        if p.size > 10 {
            account(&p);
        }
    }
}
pub fn flow_missing(m: &mut HashMap<u32, Packet>, k: u32) {
    if let Some(p) = take(m, k) {
        let _ = p.size;
    }
}

// ---- P16 guarded read ------------------------------------------------------------
pub fn read_ok(buf: &[u8]) -> Option<u8> {
    if buf.len() < 4 {
        return None;
    }
    Some(buf[3])
}
pub fn read_bad(buf: &[u8]) -> u8 {
    buf[3]
}
// the guard kept in a named bool (`let short = a || b; if short`): the comparison still controls the read
pub fn read_named_ok(buf: &[u8], tag: u8) -> Option<u8> {
    let short = tag == 0 || buf.len() < 4;
    if short {
        return None;
    }
    Some(buf[3])
}
// a named bool that does not decide the read: both of its edges reach the index
pub fn read_named_bad(buf: &[u8], tag: u8) -> u8 {
    let short = buf.len() < 4;
    let mut n = tag;
    if short {
        n = n.wrapping_add(1);
    }
    buf[3].wrapping_add(n)
}

// ---- P17 ordered bounds ----------------------------------------------------------
pub fn clamp_ok(x: u64, lo: u64, hi: u64) -> u64 {
    x.clamp(lo, hi.max(lo))
}
pub fn clamp_bad(x: u64, lo: u64, hi: u64) -> u64 {
    x.clamp(lo, hi)
}

// ---- P13 held-at -------------------------------------------------------------------
pub struct Shared {
    pub state: Mutex<u32>,
}
#[inline(never)]
pub fn register() {}
pub fn held_ok(s: &Shared) -> u32 {
    let g = s.state.lock().unwrap();
    if *g > 3 {
        return *g;
    }
    register();
    drop(g);
    0
}
pub fn held_bad(s: &Shared) -> u32 {
    {
        let g = s.state.lock().unwrap();
        if *g > 3 {
            return *g;
        }
    }
    register();
    0
}

// ---- P14 pending-justified -----------------------------------------------------------
pub fn pending_ok(ready: bool) -> Poll<u32> {
    if ready {
        return Poll::Ready(1);
    }
    register();
    Poll::Pending
}
pub fn pending_bad(ready: bool, skip: bool) -> Poll<u32> {
    if ready {
        return Poll::Ready(1);
    }
    if !skip {
        register();
    }
    Poll::Pending
}

// ---- P9 no-reach -----------------------------------------------------------------------
fn helper_clock() -> Instant {
    Instant::now()
}
pub fn reach_bad() -> Instant {
    helper_clock()
}
pub fn reach_ok(now: Instant) -> Instant {
    now
}

// ---- zero-count rule control: RandomState iteration ---------------------------------------
pub fn iter_random_state(m: &HashMap<u32, u32>) -> u32 {
    m.values().sum()
}

// ---- P11 path partition -----------------------------------------------------------------
pub fn partition(close: bool, eliciting: bool) -> u32 {
    if eliciting && !close {
        act(7); // the "gate"
    }
    if close {
        act(9);
    }
    0
}

// ---- P12 path sum -----------------------------------------------------------------------
#[inline(never)]
pub fn push_bytes<T: Copy>(buf: &mut Vec<u8>, v: T) {
    let _ = v;
    buf.push(0);
}
pub fn pathsum(buf: &mut Vec<u8>, v4: bool, seg: Option<u16>) {
    if v4 {
        push_bytes(buf, 1u8);
    } else {
        push_bytes(buf, 1u32);
    }
    if let Some(s) = seg {
        push_bytes(buf, s);
    }
    push_bytes(buf, [0u8; 20]);
}
