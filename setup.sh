#!/bin/bash
# Builds the fact extractor and warms the dependency target dir + facts cache for /repo's current tree. Offline.
set -e
cd "$(dirname "$0")"
export CARGO_NET_OFFLINE=true
(cd driver && cargo +nightly build --release --offline 2>&1 | tail -2)
python3 - <<'PY'
import sys
sys.path.insert(0, '.')
from engine.run import get_facts
try:
    fd, st, th, _ = get_facts()
    print('facts', fd, st)
except Exception as e:
    print('setup: facts not prebuilt:', str(e)[-500:])
PY
